package rules

import (
	"fmt"
	"go/ast"
	"go/token"
	"go/types"
	"sort"
	"strings"

	"golang.org/x/tools/go/cfg"
	"golang.org/x/tools/go/ssa"

	"verif/checker/core"
)

// mustHeld computes, for every CFG block entry, whether a sync lock is held on
// all paths (Lock/RLock sets, Unlock/RUnlock clears). Returns a function that
// answers the question for a node.
func mustHeld(cf *core.FuncCFG, info *types.Info) func(n ast.Node) bool {
	return mustHeldX(cf, info, false)
}

// mustHeldX: with exclusive set, only Lock/Unlock count (a read lock does not protect a write).
func mustHeldX(cf *core.FuncCFG, info *types.Info, exclusive bool) func(n ast.Node) bool {
	lockOp := func(n ast.Node) int { // +1 lock, -1 unlock, 0 none (last op in the node wins)
		res := 0
		ast.Inspect(n, func(m ast.Node) bool {
			if _, isLit := m.(*ast.FuncLit); isLit {
				return false
			}
			call, ok := m.(*ast.CallExpr)
			if !ok {
				return true
			}
			f := core.Callee(info, call)
			if f == nil || f.Pkg() == nil || f.Pkg().Path() != "sync" {
				return true
			}
			switch f.Name() {
			case "Lock":
				res = 1
			case "Unlock":
				res = -1
			case "RLock":
				if !exclusive {
					res = 1
				}
			case "RUnlock":
				if !exclusive {
					res = -1
				}
			}
			return true
		})
		return res
	}
	in := map[*cfg.Block]bool{}
	known := map[*cfg.Block]bool{}
	out := func(b *cfg.Block, st bool) bool {
		for _, n := range b.Nodes {
			switch lockOp(n) {
			case 1:
				st = true
			case -1:
				st = false
			}
		}
		return st
	}
	// optimistic must-analysis: start with true everywhere except entry
	for _, b := range cf.G.Blocks {
		in[b] = true
	}
	if len(cf.G.Blocks) > 0 {
		in[cf.G.Blocks[0]] = false
	}
	for changed := true; changed; {
		changed = false
		for _, b := range cf.G.Blocks {
			if !cf.Reachable(b) {
				continue
			}
			o := out(b, in[b])
			for _, s := range b.Succs {
				if in[s] && !o {
					in[s] = false
					changed = true
				}
			}
		}
	}
	_ = known
	return func(n ast.Node) bool {
		b, idx := cf.BlockOf(n)
		if b == nil {
			return false
		}
		st := in[b]
		for i := 0; i < idx; i++ {
			switch lockOp(b.Nodes[i]) {
			case 1:
				st = true
			case -1:
				st = false
			}
		}
		return st
	}
}

// ---- C10.R1 global write inventory ----

// plain publication sites that exist by design in the non-race build, each with the reason it is tolerated or reported.
var c10Allowed = map[string]string{
	// one line of reason per exception
	"encoder.CompileToGetCodeSet/store encoder.cachedOpcodeSets[i]": "unsynchronised publication of a single pointer word in the non-race build: a data race by the memory model, but the slot is one machine word and no misbehaviour could be demonstrated on this platform; the race build takes setsMu here (checked in that configuration)",
}

func globalRoot(v ssa.Value, depth int) *ssa.Global {
	if depth > 6 {
		return nil
	}
	switch x := v.(type) {
	case *ssa.Global:
		return x
	case *ssa.IndexAddr:
		return globalRoot(x.X, depth+1)
	case *ssa.FieldAddr:
		return globalRoot(x.X, depth+1)
	case *ssa.UnOp:
		if x.Op == token.MUL {
			return globalRoot(x.X, depth+1)
		}
	}
	return nil
}

func c10r1(rc *core.RC) {
	p := rc.P
	// closures handed to sync.Once.Do
	onceBodies := map[*ssa.Function]bool{}
	for _, f := range p.ModuleFuncs() {
		for _, b := range f.Blocks {
			for _, ins := range b.Instrs {
				c, ok := ins.(*ssa.Call)
				if !ok {
					continue
				}
				if callee := c.Call.StaticCallee(); callee != nil && callee.String() == "(*sync.Once).Do" && len(c.Call.Args) == 2 {
					if mc, ok := c.Call.Args[1].(*ssa.MakeClosure); ok {
						if fn, ok := mc.Fn.(*ssa.Function); ok {
							onceBodies[fn] = true
						}
					}
					if fn, ok := c.Call.Args[1].(*ssa.Function); ok {
						onceBodies[fn] = true
					}
				}
			}
		}
	}
	n := 0
	for _, f := range p.ModuleFuncs() {
		if f.Pkg == nil {
			continue
		}
		isInit := f.Name() == "init" || strings.HasPrefix(f.Name(), "init#")
		fd, _ := f.Syntax().(*ast.FuncDecl)
		var held func(ast.Node) bool
		for _, b := range f.Blocks {
			for _, ins := range b.Instrs {
				st, ok := ins.(*ssa.Store)
				if !ok {
					continue
				}
				g := globalRoot(st.Addr, 0)
				if g == nil || g.Pkg == nil || !strings.HasPrefix(g.Pkg.Pkg.Path(), core.ModPath) {
					continue
				}
				// the store of a package-level variable's own initial value in the synthetic init is not interesting
				n++
				elem := ""
				if _, isIdx := st.Addr.(*ssa.IndexAddr); isIdx {
					elem = "[i]"
				}
				key := fmt.Sprintf("%s/store %s.%s%s", core.SSAName(f), g.Pkg.Pkg.Name(), g.Name(), elem)
				rc.Touch(core.SSAName(f))
				switch {
				case isInit:
					rc.OK(key, core.SSAPos(st), "package initialisation")
					continue
				case onceBodies[f]:
					rc.OK(key, core.SSAPos(st), "inside a sync.Once body")
					continue
				}
				// lock held?
				locked := false
				if fd != nil && fd.Body != nil {
					if held == nil {
						held = mustHeld(core.BuildCFG(fd.Body, p.Info(fd)), p.Info(fd))
					}
					// find the AST assignment at this position
					pos := core.SSAPos(st)
					ast.Inspect(fd.Body, func(m ast.Node) bool {
						if as, ok := m.(*ast.AssignStmt); ok && as.Pos() <= pos && pos <= as.End() {
							if held(as) {
								locked = true
							}
						}
						return true
					})
				}
				if locked {
					rc.OK(key, core.SSAPos(st), "under a held sync lock")
					continue
				}
				if why, ok := c10Allowed[key]; ok {
					rc.Note(key, core.SSAPos(st), "%s", why)
					continue
				}
				rc.Bad(key, core.SSAPos(st), "a package-level variable (or memory reached through one) is written outside init/sync.Once with no lock held and no atomic operation: concurrent callers race on it")
			}
		}
	}
	if n < 5 {
		rc.Unknown("module/global-stores", token.NoPos, "only %d stores to package-level state found", n)
	}
	// reads of the caches in the race build must be under the lock too
	if rc.P.Config == "race" {
		for _, cs := range cacheSites {
			fd := p.Func(cs.pkg, cs.fn)
			if fd == nil {
				continue
			}
			info := p.Info(fd)
			cacheObj := p.Pkg(cs.pkg).Types.Scope().Lookup(cs.cache)
			held := mustHeld(core.BuildCFG(fd.Body, info), info)
			ast.Inspect(fd.Body, func(m ast.Node) bool {
				ix, ok := m.(*ast.IndexExpr)
				if !ok || core.ObjOf(info, ix.X) != cacheObj {
					return true
				}
				rc.Check(held(ix), fmt.Sprintf("%s.%s/access %s under lock", cs.pkg, cs.fn, cs.cache), ix.Pos(), "race build: the cache slot is accessed while the mutex is held")
				return true
			})
		}
	}
}

// ---- C10.R2 copy-on-write maps ----

func c10r2(rc *core.RC) {
	p := rc.P
	for _, short := range []string{"encoder", "decoder"} {
		loaders := map[string]bool{short + ".loadOpcodeMap": true, short + ".loadDecoderMap": true}
		nLoad := 0
		for _, fd := range p.Funcs(short) {
			if fd.Body == nil {
				continue
			}
			info := p.Info(fd)
			loaded := map[types.Object]bool{}
			ast.Inspect(fd.Body, func(n ast.Node) bool {
				if as, ok := n.(*ast.AssignStmt); ok && len(as.Lhs) == 1 && len(as.Rhs) == 1 {
					if c, ok := core.Unparen(as.Rhs[0]).(*ast.CallExpr); ok && loaders[core.CalleeName(info, c)] {
						loaded[core.ObjOf(info, as.Lhs[0])] = true
					}
				}
				return true
			})
			if len(loaded) == 0 {
				continue
			}
			nLoad++
			rc.Touch(p.FuncName(fd))
			written := writtenMaps(info, fd.Body)
			for o := range loaded {
				key := fmt.Sprintf("%s/loaded-map %s", p.FuncName(fd), o.Name())
				if pos, w := writtenAlias(info, fd.Body, o, written); w {
					rc.Bad(key, pos, "the map obtained from the atomically published pointer is written in place: concurrent readers iterate or look up the same map")
				} else {
					rc.OK(key, fd.Pos(), "the published map is only read here")
				}
			}
			// passed on: the callee must not write its parameter
			ast.Inspect(fd.Body, func(n ast.Node) bool {
				call, ok := n.(*ast.CallExpr)
				if !ok {
					return true
				}
				callee := core.Callee(info, call)
				if callee == nil {
					return true
				}
				cd := p.DeclOf(callee)
				if cd == nil || cd.Body == nil {
					return true
				}
				for ai, a := range call.Args {
					if !loaded[core.ObjOf(info, a)] {
						continue
					}
					cinfo := p.Info(cd)
					var prm types.Object
					k := 0
					for _, f := range cd.Type.Params.List {
						for _, nm := range f.Names {
							if k == ai {
								prm = cinfo.Defs[nm]
							}
							k++
						}
					}
					key := fmt.Sprintf("%s/loaded-map passed to %s", p.FuncName(fd), p.FuncName(cd))
					cw := writtenMaps(cinfo, cd.Body)
					if pos, w := writtenAlias(cinfo, cd.Body, prm, cw); w {
						rc.Bad(key, pos, "%s writes into the map it receives (directly or through a variable assigned from it), which is the published one", p.FuncName(cd))
						continue
					}
					// the callee must publish a fresh map atomically
					fresh, atomicStore := false, false
					ast.Inspect(cd.Body, func(m ast.Node) bool {
						if c, ok := m.(*ast.CallExpr); ok {
							if core.IsBuiltin(cinfo, c, "make") {
								fresh = true
							}
							if core.CalleeName(cinfo, c) == "atomic.StorePointer" {
								atomicStore = true
							}
						}
						return true
					})
					rc.Check(fresh && atomicStore, key, call.Pos(), "callee copies into a fresh map and publishes it with atomic.StorePointer (fresh=%v atomic=%v)", fresh, atomicStore)
				}
				return true
			})
		}
		if nLoad == 0 {
			rc.Unknown(short+"/loaded-maps", token.NoPos, "no use of the published type map found")
		}
	}
}

// writtenMaps returns the map-typed variables that are assigned through an index expression or deleted from.
// writtenAlias reports a write into root or into any variable that may hold the same map
// (flow-insensitive closure over `a := b` and `a = b`).
func writtenAlias(info *types.Info, body *ast.BlockStmt, root types.Object, written map[types.Object]token.Pos) (token.Pos, bool) {
	if root == nil {
		return token.NoPos, false
	}
	alias := map[types.Object]bool{root: true}
	for changed := true; changed; {
		changed = false
		ast.Inspect(body, func(n ast.Node) bool {
			switch x := n.(type) {
			case *ast.AssignStmt:
				if len(x.Lhs) != len(x.Rhs) {
					return true
				}
				for i, r := range x.Rhs {
					if ro := core.ObjOf(info, r); ro != nil && alias[ro] {
						if lo := core.ObjOf(info, x.Lhs[i]); lo != nil && !alias[lo] {
							alias[lo] = true
							changed = true
						}
					}
				}
			case *ast.ValueSpec:
				for i, r := range x.Values {
					if ro := core.ObjOf(info, r); ro != nil && alias[ro] && i < len(x.Names) {
						if lo := info.Defs[x.Names[i]]; lo != nil && !alias[lo] {
							alias[lo] = true
							changed = true
						}
					}
				}
			}
			return true
		})
	}
	for o := range alias {
		if pos, w := written[o]; w {
			return pos, true
		}
	}
	return token.NoPos, false
}

func writtenMaps(info *types.Info, body *ast.BlockStmt) map[types.Object]token.Pos {
	out := map[types.Object]token.Pos{}
	ast.Inspect(body, func(n ast.Node) bool {
		switch x := n.(type) {
		case *ast.AssignStmt:
			for _, l := range x.Lhs {
				if ix, ok := core.Unparen(l).(*ast.IndexExpr); ok {
					if tv := info.Types[ix.X]; tv.Type != nil {
						if _, isMap := tv.Type.Underlying().(*types.Map); isMap {
							if o := core.ObjOf(info, ix.X); o != nil {
								out[o] = x.Pos()
							}
						}
					}
				}
			}
		case *ast.CallExpr:
			if core.IsBuiltin(info, x, "delete") && len(x.Args) > 0 {
				if o := core.ObjOf(info, x.Args[0]); o != nil {
					out[o] = x.Pos()
				}
			}
		}
		return true
	})
	return out
}

// ---- C10.R3 shared handles are immutable after construction ----

func c10r3(rc *core.RC) {
	p := rc.P
	type handle struct {
		pkg, typ string
		builders func(fn string, file string) bool
	}
	handles := []handle{
		{"encoder", "FieldQuery", func(fn, file string) bool { return strings.Contains(strings.ToLower(fn), "build") }},
		{"decoder", "Path", func(fn, file string) bool {
			return strings.Contains(fn, "PathBuilder") || strings.Contains(strings.ToLower(fn), "build")
		}},
	}
	for _, h := range handles {
		n := 0
		for _, short := range []string{"encoder", "decoder", "json"} {
			for _, fd := range p.Funcs(short) {
				if fd.Body == nil {
					continue
				}
				info := p.Info(fd)
				ast.Inspect(fd.Body, func(m ast.Node) bool {
					var targets []ast.Expr
					switch x := m.(type) {
					case *ast.AssignStmt:
						targets = x.Lhs
					case *ast.IncDecStmt:
						targets = []ast.Expr{x.X}
					}
					for _, tg := range targets {
						sel, ok := core.Unparen(tg).(*ast.SelectorExpr)
						if !ok {
							continue
						}
						s := info.Selections[sel]
						if s == nil || s.Kind() != types.FieldVal {
							continue
						}
						owner := strings.TrimPrefix(s.Recv().String(), "*")
						if !strings.HasSuffix(owner, "internal/"+h.pkg+"."+h.typ) {
							continue
						}
						n++
						fn := p.FuncName(fd)
						key := fmt.Sprintf("%s/write %s.%s", fn, h.typ, sel.Sel.Name)
						if h.builders(fn, p.FileBase(fd.Pos())) {
							rc.OK(key, tg.Pos(), "written while the handle is being built")
						} else if lockedField(rc, h.pkg, h.typ, sel.Sel.Name, h.builders) && mustHeldX(core.BuildCFG(fd.Body, info), info, true)(m) {
							rc.OK(key, tg.Pos(), "written under an exclusive sync lock, and every read of %s.%s outside the builders holds a lock", h.typ, sel.Sel.Name)
						} else {
							rc.Bad(key, tg.Pos(), "a %s is documented as reusable and shareable between goroutines, but %s writes its field %s after construction: concurrent users race on it and one user's evaluation changes another's", h.typ, fn, sel.Sel.Name)
						}
					}
					return true
				})
			}
		}
		if n == 0 {
			rc.Note(h.pkg+"."+h.typ+"/writes", token.NoPos, "no field writes found")
		}
	}
}

// lockedField reports whether every read of field typ.name outside the builders of package pkg
// happens while a sync lock is held on all paths.
func lockedField(rc *core.RC, pkg, typ, name string, builders func(fn, file string) bool) bool {
	p := rc.P
	ok, reads := true, 0
	for _, short := range []string{"encoder", "decoder", "json"} {
		for _, fd := range p.Funcs(short) {
			if fd.Body == nil || builders(p.FuncName(fd), p.FileBase(fd.Pos())) {
				continue
			}
			info := p.Info(fd)
			var cf *core.FuncCFG
			var held func(ast.Node) bool
			// assignment targets are writes, not reads
			lhs := map[ast.Expr]bool{}
			ast.Inspect(fd.Body, func(m ast.Node) bool {
				if as, isAs := m.(*ast.AssignStmt); isAs {
					for _, l := range as.Lhs {
						lhs[core.Unparen(l)] = true
					}
				}
				return true
			})
			var stack []ast.Node
			ast.Inspect(fd.Body, func(m ast.Node) bool {
				if m == nil {
					stack = stack[:len(stack)-1]
					return true
				}
				stack = append(stack, m)
				sel, isSel := m.(*ast.SelectorExpr)
				if !isSel || sel.Sel.Name != name || lhs[sel] {
					return true
				}
				s := info.Selections[sel]
				if s == nil || s.Kind() != types.FieldVal || !strings.HasSuffix(strings.TrimPrefix(s.Recv().String(), "*"), "internal/"+pkg+"."+typ) {
					return true
				}
				reads++
				if cf == nil {
					cf = core.BuildCFG(fd.Body, info)
					held = mustHeld(cf, info)
				}
				// the statement that contains the read
				var stmt ast.Node
				for i := len(stack) - 1; i >= 0; i-- {
					if _, isStmt := stack[i].(ast.Stmt); isStmt {
						stmt = stack[i]
						break
					}
				}
				if stmt == nil || !held(stmt) {
					ok = false
				}
				return true
			})
		}
	}
	return ok && reads > 0
}

// ---- C10.R4 no use after release ----

func c10r4(rc *core.RC) {
	p := rc.P
	n := 0
	for _, short := range []string{"json", "encoder", "decoder"} {
		for _, fd := range p.Funcs(short) {
			if fd.Body == nil {
				continue
			}
			info := p.Info(fd)
			releases := 0
			ast.Inspect(fd.Body, func(m ast.Node) bool {
				if c, ok := m.(*ast.CallExpr); ok && strings.HasSuffix(core.CalleeName(info, c), ".ReleaseRuntimeContext") {
					releases++
				}
				return true
			})
			if releases == 0 {
				continue
			}
			n += releases
			rc.Touch(p.FuncName(fd))
			// variables derived from the context: results of calls that take it, and selections of its buffers
			derived := map[types.Object][]types.Object{} // ctx -> vars
			ast.Inspect(fd.Body, func(m ast.Node) bool {
				as, ok := m.(*ast.AssignStmt)
				if !ok {
					return true
				}
				for _, r := range as.Rhs {
					var ctxObj types.Object
					ast.Inspect(r, func(k ast.Node) bool {
						if id, ok := k.(*ast.Ident); ok {
							if o := info.Uses[id]; o != nil && strings.HasSuffix(o.Type().String(), ".RuntimeContext") {
								ctxObj = o
							}
						}
						return true
					})
					if ctxObj == nil {
						continue
					}
					for _, l := range as.Lhs {
						if o := core.ObjOf(info, l); o != nil {
							if sl, ok := o.Type().Underlying().(*types.Slice); ok {
								if b, ok := sl.Elem().Underlying().(*types.Basic); ok && b.Kind() == types.Uint8 {
									derived[ctxObj] = append(derived[ctxObj], o)
								}
							}
						}
					}
				}
				return true
			})
			cf := core.BuildCFG(fd.Body, info)
			uses := core.StaleUses(cf, core.StaleSpec{
				Info: info,
				Invalidate: func(m ast.Node) []types.Object {
					var out []types.Object
					if _, isDefer := m.(*ast.DeferStmt); isDefer {
						return nil // released when the function returns: handled below
					}
					ast.Inspect(m, func(k ast.Node) bool {
						if c, ok := k.(*ast.CallExpr); ok && strings.HasSuffix(core.CalleeName(info, c), ".ReleaseRuntimeContext") && len(c.Args) == 1 {
							if o := core.ObjOf(info, c.Args[0]); o != nil {
								out = append(out, o)
								out = append(out, derived[o]...)
							}
						}
						return true
					})
					return out
				},
			})
			key := p.FuncName(fd) + "/use-after-release"
			// a deferred release runs when the function returns: what the function returns must not be
			// the context or a buffer derived from it
			var deferred []types.Object
			ast.Inspect(fd.Body, func(m ast.Node) bool {
				if d, ok := m.(*ast.DeferStmt); ok && strings.HasSuffix(core.CalleeName(info, d.Call), ".ReleaseRuntimeContext") && len(d.Call.Args) == 1 {
					if o := core.ObjOf(info, d.Call.Args[0]); o != nil {
						deferred = append(deferred, o)
						deferred = append(deferred, derived[o]...)
					}
				}
				return true
			})
			escaped := false
			// with a deferred release, an explicit release of the same context puts it into the pool twice
			if len(deferred) > 0 {
				ast.Inspect(fd.Body, func(m ast.Node) bool {
					if _, isDefer := m.(*ast.DeferStmt); isDefer {
						return false
					}
					if c, ok := m.(*ast.CallExpr); ok && strings.HasSuffix(core.CalleeName(info, c), ".ReleaseRuntimeContext") && len(c.Args) == 1 && !escaped {
						if o := core.ObjOf(info, c.Args[0]); o != nil && o == deferred[0] {
							escaped = true
							rc.Bad(key, c.Pos(), "%s is released here and again by the deferred ReleaseRuntimeContext: the pool holds the same context twice and hands it to two callers, whose frames, buffer and options then overlap", o.Name())
						}
					}
					return true
				})
			}
			if len(deferred) > 0 && !escaped {
				for _, r := range cf.Returns() {
					for _, res := range r.Results {
						o := core.ObjOf(info, res)
						for _, d := range deferred {
							if o != nil && o == d && !escaped {
								escaped = true
								rc.Bad(key, r.Pos(), "%s is returned while a deferred ReleaseRuntimeContext puts its context back into the pool on the way out: the caller receives memory another goroutine may already be writing", o.Name())
							}
						}
					}
				}
			}
			if escaped {
				continue
			}
			if len(uses) == 0 {
				rc.OK(key, fd.Pos(), "%d release site(s): neither the context nor a buffer derived from it is used afterwards", releases)
				continue
			}
			u := uses[0]
			rc.Bad(key, u.Pos, "%s is used in `%s` after the runtime context was returned to the pool: another goroutine may already own and overwrite it", u.Obj.Name(), core.Clip(core.Src(p.Fset, u.Node), 80))
		}
	}
	if n < 15 {
		rc.Unknown("module/release-sites", token.NoPos, "found %d ReleaseRuntimeContext calls (confirmed: ≥ 20)", n)
	}
}

// ---- C10.R5 QueryCache lock ----

func c10r5(rc *core.RC) {
	p := rc.P
	n := 0
	for _, fd := range p.Funcs("encoder") {
		if fd.Body == nil {
			continue
		}
		info := p.Info(fd)
		var held func(ast.Node) bool
		ast.Inspect(fd.Body, func(m ast.Node) bool {
			sel, ok := m.(*ast.SelectorExpr)
			if !ok {
				return true
			}
			f := core.FieldOf(info, sel)
			if f == nil || f.Name() != "QueryCache" {
				return true
			}
			n++
			rc.Touch(p.FuncName(fd))
			if held == nil {
				held = mustHeld(core.BuildCFG(fd.Body, info), info)
			}
			rc.Check(held(sel), fmt.Sprintf("%s/QueryCache-access", p.FuncName(fd)), sel.Pos(), "OpcodeSet.QueryCache is accessed between cacheMu.Lock/RLock and the matching unlock")
			return true
		})
	}
	if n < 2 {
		rc.Unknown("encoder/QueryCache-accesses", token.NoPos, "expected a lookup and a store of QueryCache, found %d", n)
	}
	// the general form: a field of a struct that carries its own mutex, once it is written under that
	// mutex anywhere, is read under it everywhere (a lock-free fast path in front of a locked writer
	// is a torn read as soon as the value is replaced)
	for _, short := range []string{"encoder", "decoder"} {
		// struct types with a sync.Mutex / sync.RWMutex field
		locked := map[*types.Named]bool{}
		pk := p.Pkg(short)
		for _, name := range pk.Types.Scope().Names() {
			tn, ok := pk.Types.Scope().Lookup(name).(*types.TypeName)
			if !ok {
				continue
			}
			st, ok := tn.Type().Underlying().(*types.Struct)
			if !ok {
				continue
			}
			for i := 0; i < st.NumFields(); i++ {
				ts := st.Field(i).Type().String()
				if ts == "sync.Mutex" || ts == "sync.RWMutex" {
					if nt, ok := tn.Type().(*types.Named); ok {
						locked[nt] = true
					}
				}
			}
		}
		if len(locked) == 0 {
			continue
		}
		ownerOf := func(info *types.Info, sel *ast.SelectorExpr) (*types.Named, *types.Var) {
			s := info.Selections[sel]
			if s == nil || s.Kind() != types.FieldVal {
				return nil, nil
			}
			t := s.Recv()
			if pt, ok := t.(*types.Pointer); ok {
				t = pt.Elem()
			}
			nt, _ := t.(*types.Named)
			if nt == nil || !locked[nt] {
				return nil, nil
			}
			v, _ := s.Obj().(*types.Var)
			return nt, v
		}
		type acc struct {
			fn          string
			pos         token.Pos
			write, held bool
		}
		accs := map[*types.Var][]acc{}
		for _, fd := range p.Funcs(short) {
			if fd.Body == nil {
				continue
			}
			info := p.Info(fd)
			var held func(ast.Node) bool
			lhs := map[ast.Expr]bool{}
			ast.Inspect(fd.Body, func(m ast.Node) bool {
				if as, ok := m.(*ast.AssignStmt); ok {
					for _, l := range as.Lhs {
						l = core.Unparen(l)
						if ix, ok := l.(*ast.IndexExpr); ok {
							l = core.Unparen(ix.X)
						}
						lhs[l] = true
					}
				}
				return true
			})
			var stack []ast.Node
			ast.Inspect(fd.Body, func(m ast.Node) bool {
				if m == nil {
					stack = stack[:len(stack)-1]
					return true
				}
				stack = append(stack, m)
				sel, ok := m.(*ast.SelectorExpr)
				if !ok {
					return true
				}
				_, f := ownerOf(info, sel)
				if f == nil || strings.HasPrefix(f.Type().String(), "sync.") {
					return true
				}
				if held == nil {
					held = mustHeld(core.BuildCFG(fd.Body, info), info)
				}
				var stmt ast.Node
				for i := len(stack) - 1; i >= 0; i-- {
					if _, isStmt := stack[i].(ast.Stmt); isStmt {
						stmt = stack[i]
						break
					}
				}
				accs[f] = append(accs[f], acc{p.FuncName(fd), sel.Pos(), lhs[sel], stmt != nil && held(stmt)})
				return true
			})
		}
		for f, as := range accs {
			guardedWrite := false
			for _, a := range as {
				if a.write && a.held {
					guardedWrite = true
				}
			}
			if !guardedWrite {
				continue // written only while the object is private (construction), or never
			}
			for _, a := range as {
				key := fmt.Sprintf("%s/locked-field %s", a.fn, f.Name())
				if a.held {
					rc.OK(key, a.pos, "accessed with the lock held")
				} else {
					rc.Bad(key, a.pos, "%s is written under the struct's mutex elsewhere but is accessed here without it: a reader that runs while the value is being replaced sees a mixture (a new program under an old key)", f.Name())
				}
			}
		}
	}
}

// ---- C10.R6 no re-entrant locking ----

func c10r6(rc *core.RC) {
	p := rc.P
	g := p.VTA()
	// functions that lock mutex M (package-level sync mutex), transitively
	type mu = *ssa.Global
	locks := map[*ssa.Function]map[mu]bool{}
	for _, f := range p.ModuleFuncs() {
		for _, b := range f.Blocks {
			for _, ins := range b.Instrs {
				c, ok := ins.(*ssa.Call)
				if !ok {
					continue
				}
				callee := c.Call.StaticCallee()
				if callee == nil || callee.Pkg == nil || callee.Pkg.Pkg.Path() != "sync" {
					continue
				}
				if n := callee.Name(); n != "Lock" && n != "RLock" {
					continue
				}
				if len(c.Call.Args) == 0 {
					continue
				}
				if gl := globalRoot(c.Call.Args[0], 0); gl != nil {
					if locks[f] == nil {
						locks[f] = map[mu]bool{}
					}
					locks[f][gl] = true
				}
			}
		}
	}
	reachLock := func(start *ssa.Function, m mu) (bool, []string) {
		seen := map[*ssa.Function]*ssa.Function{start: nil}
		q := []*ssa.Function{start}
		for len(q) > 0 {
			f := q[0]
			q = q[1:]
			if locks[f][m] {
				var path []string
				for x := f; x != nil; x = seen[x] {
					path = append([]string{core.SSAName(x)}, path...)
				}
				return true, path
			}
			if n := g.Nodes[f]; n != nil {
				for _, e := range n.Out {
					if _, ok := seen[e.Callee.Func]; !ok {
						seen[e.Callee.Func] = f
						q = append(q, e.Callee.Func)
					}
				}
			}
		}
		return false, nil
	}
	n := 0
	for f, ms := range locks {
		fd, _ := f.Syntax().(*ast.FuncDecl)
		if fd == nil || fd.Body == nil {
			continue
		}
		info := p.Info(fd)
		held := mustHeld(core.BuildCFG(fd.Body, info), info)
		rc.Touch(core.SSAName(f))
		ast.Inspect(fd.Body, func(m ast.Node) bool {
			call, ok := m.(*ast.CallExpr)
			if !ok {
				return true
			}
			callee := core.Callee(info, call)
			if callee == nil || callee.Pkg() == nil || !strings.HasPrefix(callee.Pkg().Path(), core.ModPath) {
				return true
			}
			if !held(call) {
				return true
			}
			n++
			cf := p.SSA().FuncValue(callee)
			if cf == nil {
				return true
			}
			key := fmt.Sprintf("%s/call %s/while-locked", core.SSAName(f), callee.Name())
			for mtx := range ms {
				if ok, path := reachLock(cf, mtx); ok {
					rc.Bad(key, call.Pos(), "%s is called while %s is held, and it can reach a Lock/RLock of the same mutex (%s): sync.RWMutex is not re-entrant, so the goroutine blocks on itself as soon as the inner path takes the write lock", callee.Name(), mtx.Name(), strings.Join(shortNames(path), " → "))
					return true
				}
			}
			rc.OK(key, call.Pos(), "the callee cannot reach a lock on the held mutex")
			return true
		})
	}
	rc.Check(len(locks) >= 2, "module/locking-functions", token.NoPos, "%d functions take a package-level lock; %d module calls are made while one is held", len(locks), n)
}

// ---- C10.R7 compiled decoders are read-only while decoding ----

// A decoder object is compiled once per type, cached, and then used by every goroutine that decodes
// that type. Its Decode, DecodeStream and DecodePath methods, and the methods of the same receiver
// they call, must not assign to the receiver's fields (lazy initialisation included): sync.Pool
// fields and what is stored through the destination pointer are not the receiver.
func c10r7(rc *core.RC) {
	p := rc.P
	n := 0
	byRecv := map[string]map[string]*ast.FuncDecl{}
	for _, fd := range p.Funcs("decoder") {
		if fd.Recv == nil || fd.Body == nil || len(fd.Recv.List) == 0 {
			continue
		}
		r := strings.TrimPrefix(types.ExprString(fd.Recv.List[0].Type), "*")
		if byRecv[r] == nil {
			byRecv[r] = map[string]*ast.FuncDecl{}
		}
		byRecv[r][fd.Name.Name] = fd
	}
	for recvName, methods := range byRecv {
		if !strings.HasSuffix(recvName, "Decoder") {
			continue
		}
		// methods reachable from the decode entry points through calls on the receiver
		reach := map[string]bool{}
		var visit func(name string, depth int)
		visit = func(name string, depth int) {
			fd := methods[name]
			if fd == nil || reach[name] || depth > 3 {
				return
			}
			reach[name] = true
			if len(fd.Recv.List[0].Names) == 0 {
				return
			}
			info := p.Info(fd)
			recv := info.Defs[fd.Recv.List[0].Names[0]]
			ast.Inspect(fd.Body, func(m ast.Node) bool {
				if c, ok := m.(*ast.CallExpr); ok {
					if sel, ok := c.Fun.(*ast.SelectorExpr); ok && core.ObjOf(info, sel.X) == recv {
						visit(sel.Sel.Name, depth+1)
					}
				}
				return true
			})
		}
		for _, e := range []string{"Decode", "DecodeStream", "DecodePath"} {
			visit(e, 0)
		}
		for name := range reach {
			fd := methods[name]
			if len(fd.Recv.List[0].Names) == 0 {
				continue
			}
			info := p.Info(fd)
			recv := info.Defs[fd.Recv.List[0].Names[0]]
			fn := p.FuncName(fd)
			n++
			rc.Touch(fn)
			var w ast.Node
			ast.Inspect(fd.Body, func(m ast.Node) bool {
				var targets []ast.Expr
				switch x := m.(type) {
				case *ast.AssignStmt:
					targets = x.Lhs
				case *ast.IncDecStmt:
					targets = []ast.Expr{x.X}
				}
				for _, tg := range targets {
					t := core.Unparen(tg)
					// d.f = …, d.f[i] = …, d.f.g = …
					for {
						switch y := t.(type) {
						case *ast.IndexExpr:
							t = core.Unparen(y.X)
							continue
						case *ast.SelectorExpr:
							if core.FieldOf(info, y) != nil {
								if core.ObjOf(info, y.X) == recv {
									w = tg
								}
								t = core.Unparen(y.X)
								continue
							}
						}
						break
					}
				}
				return true
			})
			key := fn + "/receiver-read-only"
			if w == nil {
				rc.OK(key, fd.Pos(), "does not assign to the decoder's own fields")
			} else {
				rc.Bad(key, w.Pos(), "%s runs at decode time on a decoder that is cached and shared by all goroutines decoding this type, and assigns `%s`: two first uses at the same moment race on it and leave the cached decoder inconsistent", name, core.Src(p.Fset, w))
			}
		}
	}
	if n < 40 {
		rc.Unknown("decoder/decode-time-methods", token.NoPos, "found %d decode-time methods", n)
	}
}

// ---- C10.R8 a pooled context owns what its pointer fields point to ----

// isFreshAlloc: &T{…} or new(T).
func isFreshAlloc(info *types.Info, e ast.Expr) bool {
	e = core.Unparen(e)
	if u, ok := e.(*ast.UnaryExpr); ok && u.Op == token.AND {
		_, isLit := core.Unparen(u.X).(*ast.CompositeLit)
		return isLit
	}
	if c, ok := e.(*ast.CallExpr); ok && core.IsBuiltin(info, c, "new") {
		return true
	}
	return false
}

// The run-time contexts of encoder and decoder are recycled through sync.Pools, and every entry point resets the
// Option its context points to (`*ctx.Option = Option{}`) and fills it in. That is only private to the call when
// no two contexts point to the same Option: a pointer field of a pooled context must only ever receive a fresh
// allocation. A context built as a composite literal may borrow a pointer when it is handed straight to a Decode
// call and never reaches a pool.
func c10r8(rc *core.RC) {
	p := rc.P
	n := 0
	for _, short := range []string{"json", "decoder", "encoder", "vm", "vm_indent", "vm_color", "vm_color_indent"} {
		for _, fd := range p.Funcs(short) {
			if fd.Body == nil {
				continue
			}
			info := p.Info(fd)
			fn := p.FuncName(fd)
			k := 0
			parents := map[ast.Node]ast.Node{}
			var stack []ast.Node
			ast.Inspect(fd.Body, func(m ast.Node) bool {
				if m == nil {
					stack = stack[:len(stack)-1]
					return true
				}
				if len(stack) > 0 {
					parents[m] = stack[len(stack)-1]
				}
				stack = append(stack, m)
				return true
			})
			ast.Inspect(fd.Body, func(m ast.Node) bool {
				switch x := m.(type) {
				case *ast.AssignStmt:
					for i, l := range x.Lhs {
						sel, ok := core.Unparen(l).(*ast.SelectorExpr)
						if !ok {
							continue
						}
						owner := pooledOwner(info, sel)
						if !strings.HasSuffix(owner, "RuntimeContext") {
							continue
						}
						f := core.FieldOf(info, sel)
						if f == nil {
							continue
						}
						if _, isPtr := f.Type().Underlying().(*types.Pointer); !isPtr || i >= len(x.Rhs) || len(x.Lhs) != len(x.Rhs) {
							continue
						}
						n++
						k++
						rc.Touch(fn)
						key := fmt.Sprintf("%s/%s.%s#%d receives-fresh-allocation", fn, owner, f.Name(), k)
						rc.Check(isFreshAlloc(info, x.Rhs[i]), key, x.Pos(), "the pointer field %s.%s of a context that is recycled through a sync.Pool receives %s: two pooled contexts that point to one %s make every entry point reset and fill in the options of another, concurrent call", owner, f.Name(), core.Src(p.Fset, x.Rhs[i]), f.Name())
					}
				case *ast.CompositeLit:
					tv, has := info.Types[x]
					if !has {
						return true
					}
					owner := strings.TrimPrefix(types.Unalias(tv.Type).String(), core.ModPath+"/internal/")
					if !pooledTypes[owner] || !strings.HasSuffix(owner, "RuntimeContext") {
						return true
					}
					for _, el := range x.Elts {
						kv, ok := el.(*ast.KeyValueExpr)
						if !ok {
							continue
						}
						f, _ := core.ObjOf(info, kv.Key).(*types.Var)
						if f == nil {
							continue
						}
						if _, isPtr := f.Type().Underlying().(*types.Pointer); !isPtr {
							continue
						}
						n++
						k++
						rc.Touch(fn)
						key := fmt.Sprintf("%s/%s.%s#%d receives-fresh-allocation", fn, owner, f.Name(), k)
						if isFreshAlloc(info, kv.Value) {
							rc.OK(key, kv.Pos(), "fresh allocation")
							continue
						}
						// borrowed: the literal's address must be a direct argument of a Decode call
						par := parents[x]
						if u, isAddr := par.(*ast.UnaryExpr); isAddr && u.Op == token.AND {
							if c, isCall := parents[u].(*ast.CallExpr); isCall {
								if sel, isSel := c.Fun.(*ast.SelectorExpr); isSel && strings.HasPrefix(sel.Sel.Name, "Decode") {
									rc.OK(key, kv.Pos(), "a borrowed %s in a context literal that is handed straight to %s and never reaches a pool", f.Name(), sel.Sel.Name)
									continue
								}
							}
						}
						rc.Bad(key, kv.Pos(), "a context literal borrows %s for its field %s and is not handed straight to a Decode call: if it reaches a pool, two contexts share one %s", core.Src(p.Fset, kv.Value), f.Name(), f.Name())
					}
				}
				return true
			})
		}
	}
	if n < 2 {
		rc.Unknown("module/context-pointer-fields", token.NoPos, "found %d stores to pointer fields of the pooled contexts inside functions (confirmed: the ,string stream context and the key encoder's scratch context; the pool constructors are package-level initialisers)", n)
	}
}

// ---- C10.R9 error constructors hand out fresh values ----

// The *SyntaxError / *UnmarshalTypeError values the library returns are written to afterwards: annotateError fills
// in the Offset of a syntax error that a user's UnmarshalJSON returned, callers attach field and struct names. An
// error constructor that returns one shared package-level value "built once" makes those writes race between
// goroutines and lets one call's error change under the hands of another that still holds it. Every result of an
// error constructor in internal/errors is therefore built in the call (a composite literal, a call), never the
// value of a package-level variable.
func c10r9(rc *core.RC) {
	p := rc.P
	n := 0
	for _, fd := range p.Funcs("errors") {
		if fd.Body == nil || fd.Type.Results == nil || fd.Recv != nil {
			continue
		}
		info := p.Info(fd)
		fn := p.FuncName(fd)
		k := 0
		ast.Inspect(fd.Body, func(m ast.Node) bool {
			if _, isLit := m.(*ast.FuncLit); isLit {
				return false
			}
			ret, ok := m.(*ast.ReturnStmt)
			if !ok {
				return true
			}
			for _, r := range ret.Results {
				t := info.TypeOf(r)
				if t == nil {
					continue
				}
				if _, isPtr := t.Underlying().(*types.Pointer); !isPtr {
					if _, isIface := t.Underlying().(*types.Interface); !isIface {
						continue
					}
				}
				k++
				n++
				rc.Touch(fn)
				key := fmt.Sprintf("%s/result#%d built-in-the-call", fn, k)
				shared := ""
				var walk func(e ast.Expr, depth int)
				walk = func(e ast.Expr, depth int) {
					e = core.Unparen(e)
					switch v := e.(type) {
					case *ast.Ident:
						o := core.ObjOf(info, v)
						if vr, isVar := o.(*types.Var); isVar && vr.Pkg() != nil && vr.Parent() == vr.Pkg().Scope() {
							shared = v.Name
						} else if depth < 3 && o != nil {
							if d := singleDef(info, fd.Body, o); d != nil {
								walk(d, depth+1)
							}
						}
					case *ast.UnaryExpr:
						if v.Op == token.AND {
							if id, isID := core.Unparen(v.X).(*ast.Ident); isID {
								walk(id, depth)
							}
						}
					}
				}
				walk(r, 0)
				rc.Check(shared == "", key, ret.Pos(), "the error value is built in the call%s", map[bool]string{true: "", false: ": this return hands out the package-level variable " + shared + ", which every caller shares: the decoders write offsets and names into the errors they pass on (annotateError), so two goroutines race on it and an error a caller holds changes afterwards"}[shared == ""])
			}
			return true
		})
	}
	if n < 10 {
		rc.Unknown("errors/constructors", token.NoPos, "found %d pointer or interface results of constructors in internal/errors", n)
	}
}

// ---- C10.R10 a field query handle is read-only for its own methods ----

// One *FieldQuery may sit in the contexts of many goroutines. Its methods (Hash, MarshalJSON, QueryString) run on
// every MarshalContext call. Apart from the hash, which is written under queryHashMu (C10.R5), they must not write
// to the handle: not assign its fields, not store into q.Fields or a local alias of it, not append to it, not sort
// it in place. `fields := q.Fields; sort.SliceStable(fields, …)` sorts the shared slice: concurrent first uses lose
// and duplicate selections.
func c10r10(rc *core.RC) {
	p := rc.P
	n := 0
	for _, fd := range p.Funcs("encoder") {
		if fd.Body == nil || fd.Recv == nil || len(fd.Recv.List) == 0 || len(fd.Recv.List[0].Names) == 0 {
			continue
		}
		info := p.Info(fd)
		recv := info.Defs[fd.Recv.List[0].Names[0]]
		if recv == nil || !strings.HasSuffix(recv.Type().String(), "encoder.FieldQuery") {
			continue
		}
		if _, isPtr := recv.Type().(*types.Pointer); !isPtr {
			continue
		}
		fn := p.FuncName(fd)
		rc.Touch(fn)
		n++
		key := fn + "/handle-not-written"
		// aliases of q.Fields
		alias := map[types.Object]bool{}
		isFields := func(e ast.Expr) bool {
			e = core.Unparen(e)
			if se, ok := e.(*ast.SliceExpr); ok {
				e = core.Unparen(se.X)
			}
			if sel, ok := e.(*ast.SelectorExpr); ok && core.ObjOf(info, sel.X) == recv {
				if f := core.FieldOf(info, sel); f != nil && f.Name() == "Fields" {
					return true
				}
			}
			if id, ok := e.(*ast.Ident); ok && alias[core.ObjOf(info, id)] {
				return true
			}
			return false
		}
		for changed := true; changed; {
			changed = false
			ast.Inspect(fd.Body, func(m ast.Node) bool {
				as, ok := m.(*ast.AssignStmt)
				if !ok || len(as.Lhs) != len(as.Rhs) {
					return true
				}
				for i, l := range as.Lhs {
					if id, isID := l.(*ast.Ident); isID && isFields(as.Rhs[i]) {
						if o := core.ObjOf(info, id); o != nil && !alias[o] {
							alias[o] = true
							changed = true
						}
					}
				}
				return true
			})
		}
		var writes []string
		ast.Inspect(fd.Body, func(m ast.Node) bool {
			switch x := m.(type) {
			case *ast.AssignStmt:
				for _, l := range x.Lhs {
					l = core.Unparen(l)
					if ix, ok := l.(*ast.IndexExpr); ok && isFields(ix.X) {
						writes = append(writes, "stores into "+core.Src(p.Fset, l))
					}
					if sel, ok := l.(*ast.SelectorExpr); ok && core.ObjOf(info, sel.X) == recv {
						if f := core.FieldOf(info, sel); f != nil && f.Name() != "hash" {
							writes = append(writes, "assigns "+core.Src(p.Fset, l))
						}
					}
				}
			case *ast.CallExpr:
				name := core.CalleeName(info, x)
				if strings.HasPrefix(name, "sort.") {
					for _, a := range x.Args {
						if isFields(a) {
							writes = append(writes, "sorts "+core.Src(p.Fset, a)+" in place ("+name+")")
						}
					}
				}
				if core.IsBuiltin(info, x, "append") && len(x.Args) > 0 && isFields(x.Args[0]) {
					writes = append(writes, "appends to "+core.Src(p.Fset, x.Args[0]))
				}
				if core.IsBuiltin(info, x, "copy") && len(x.Args) == 2 && isFields(x.Args[0]) {
					writes = append(writes, "copies into "+core.Src(p.Fset, x.Args[0]))
				}
			}
			return true
		})
		rc.Check(len(writes) == 0, key, fd.Pos(), "the method only reads the handle (the hash aside)%s", map[bool]string{true: "", false: ": it " + strings.Join(writes, "; ") + " — the handle is shared by every goroutine whose context carries it"}[len(writes) == 0])
	}
	if n < 3 {
		rc.Unknown("encoder/FieldQuery-methods", token.NoPos, "found %d methods of *FieldQuery (confirmed: Hash, MarshalJSON, QueryString)", n)
	}
}

// ---- C10.R11 a struct that holds a lock is never copied ----

// OpcodeSet guards its query cache with cacheMu; the decoder and encoder caches, the Stream and the contexts hold
// sync values as well. A lock works for the one variable it is: a method with a value receiver, a by-value parameter
// or `x := *p` gives the callee its own copy of the lock and leaves the guarded map shared. Readers then lock a
// private mutex while the writer locks the real one (a data race on the map, and a copy taken while the writer holds
// the lock is a locked mutex nobody unlocks: the call never returns). Obligation, for every struct type of the library
// that contains a sync.Mutex, RWMutex, Once, WaitGroup, Cond, Pool, Map or an atomic value, not through a pointer: no
// method has it as a value receiver, no function takes or returns it by value, and no expression dereferences a
// pointer to it as a value (assignment, argument, composite element).
func c10r11(rc *core.RC) {
	p := rc.P
	var holds func(t types.Type, seen map[types.Type]bool) bool
	holds = func(t types.Type, seen map[types.Type]bool) bool {
		if seen[t] {
			return false
		}
		seen[t] = true
		if n, ok := t.(*types.Named); ok {
			if o := n.Obj(); o.Pkg() != nil && (o.Pkg().Path() == "sync" || o.Pkg().Path() == "sync/atomic") {
				switch o.Name() {
				case "Mutex", "RWMutex", "Once", "WaitGroup", "Cond", "Pool", "Map", "Value", "Bool", "Int32", "Int64", "Uint32", "Uint64", "Uintptr", "Pointer":
					return true
				}
			}
		}
		switch u := t.Underlying().(type) {
		case *types.Struct:
			for i := 0; i < u.NumFields(); i++ {
				if holds(u.Field(i).Type(), seen) {
					return true
				}
			}
		case *types.Array:
			return holds(u.Elem(), seen)
		}
		return false
	}
	lockTypes := map[*types.TypeName]bool{}
	for _, pk := range p.LibPkgs() {
		scope := pk.Types.Scope()
		for _, nm := range scope.Names() {
			tn, ok := scope.Lookup(nm).(*types.TypeName)
			if !ok {
				continue
			}
			if _, isStruct := tn.Type().Underlying().(*types.Struct); isStruct && holds(tn.Type(), map[types.Type]bool{}) {
				lockTypes[tn] = true
			}
		}
	}
	isLock := func(t types.Type) bool {
		n, ok := t.(*types.Named)
		return ok && lockTypes[n.Obj()]
	}
	if len(lockTypes) < 2 {
		rc.Unknown("module/lock-holding-types", token.NoPos, "found %d struct types that hold a lock (confirmed: OpcodeSet among them)", len(lockTypes))
		return
	}
	bad := map[*types.TypeName][]string{}
	report := func(t types.Type, pos token.Pos, what string) {
		n := t.(*types.Named)
		bad[n.Obj()] = append(bad[n.Obj()], what+" at "+p.Pos(pos))
	}
	for _, pk := range p.LibPkgs() {
		info := pk.TypesInfo
		for _, fd := range p.Funcs(pk.Name) {
			fn, _ := info.Defs[fd.Name].(*types.Func)
			if fn == nil {
				continue
			}
			sig := fn.Type().(*types.Signature)
			name := p.FuncName(fd)
			if sig.Recv() != nil && isLock(sig.Recv().Type()) {
				report(sig.Recv().Type(), fd.Pos(), "value receiver of "+name)
			}
			for i := 0; i < sig.Params().Len(); i++ {
				if isLock(sig.Params().At(i).Type()) {
					report(sig.Params().At(i).Type(), fd.Pos(), "by-value parameter of "+name)
				}
			}
			for i := 0; i < sig.Results().Len(); i++ {
				if isLock(sig.Results().At(i).Type()) {
					report(sig.Results().At(i).Type(), fd.Pos(), "by-value result of "+name)
				}
			}
			if fd.Body == nil {
				continue
			}
			ast.Inspect(fd.Body, func(m ast.Node) bool {
				st, ok := m.(*ast.StarExpr)
				if !ok {
					return true
				}
				tv, has := info.Types[st]
				if !has || !tv.IsValue() || !isLock(tv.Type) {
					return true
				}
				// a dereference used as a value: not the operand of a selector, of & or the target of an assignment
				path := core.PathTo(fd.Body, st)
				if len(path) >= 2 {
					switch par := path[len(path)-2].(type) {
					case *ast.SelectorExpr:
						return true
					case *ast.UnaryExpr:
						if par.Op == token.AND {
							return true
						}
					case *ast.ParenExpr:
						if len(path) >= 3 {
							if _, isSel := path[len(path)-3].(*ast.SelectorExpr); isSel {
								return true
							}
						}
					case *ast.AssignStmt:
						for _, l := range par.Lhs {
							if ast.Node(l) == ast.Node(st) {
								// *p = T{…}: the variable is overwritten, not copied (reported only for a lock value on the right)
								return true
							}
						}
					}
				}
				report(tv.Type, st.Pos(), "copy by dereference in "+name)
				return true
			})
		}
	}
	var tns []*types.TypeName
	for tn := range lockTypes {
		tns = append(tns, tn)
	}
	sort.Slice(tns, func(i, j int) bool { return tns[i].Pkg().Name()+tns[i].Name() < tns[j].Pkg().Name()+tns[j].Name() })
	for _, tn := range tns {
		key := fmt.Sprintf("%s.%s/never-copied", tn.Pkg().Name(), tn.Name())
		if len(bad[tn]) == 0 {
			rc.OK(key, tn.Pos(), "holds a lock and is used through pointers only")
		} else {
			rc.Bad(key, tn.Pos(), "%s.%s holds a lock and is copied: %s. The copy has a lock of its own and shares what the lock guards: readers and the writer no longer exclude each other, and a copy of a held lock is never released", tn.Pkg().Name(), tn.Name(), strings.Join(bad[tn], "; "))
		}
	}
}

// ---- C10.R12 a map context goes back to its pool where the interpreter leaves the map ----

// The MapContext of a map being encoded is loaded again by every operation of that map (OpMapKey reads Idx and Len,
// OpMapValue the iterator). It may be handed to ReleaseMapContext only where the interpreter does not come back to an
// operation of the same map: in OpMapEnd, and in the branch of OpMapKey that goes on behind the map
// (code = code.End.Next). Released earlier, the object is taken by another goroutine's map while this one still reads
// and writes it. Obligation, for every call of ReleaseMapContext in a clause of the four interpreters: the clause is
// OpMapEnd, or the next assignment to the instruction pointer behind the call in the same statement list is
// code.End.Next; and the released variable is not used again in that list.
func c10r12(rc *core.RC) {
	p := rc.P
	t := loadOpTable(rc)
	if t == nil {
		return
	}
	n := 0
	for _, vm := range core.VMPkgs {
		cl, _ := opClauses(rc, vm, t)
		if cl == nil {
			continue
		}
		info := p.Pkg(vm).TypesInfo
		var labels []string
		for k := range cl {
			labels = append(labels, k)
		}
		sort.Strings(labels)
		for _, label := range labels {
			cc := cl[label]
			k := 0
			var lists [][]ast.Stmt
			lists = append(lists, cc.Body)
			ast.Inspect(cc, func(m ast.Node) bool {
				if b, ok := m.(*ast.BlockStmt); ok {
					lists = append(lists, b.List)
				}
				return true
			})
			for _, list := range lists {
				for i, st := range list {
					es, ok := st.(*ast.ExprStmt)
					if !ok {
						continue
					}
					call, ok := es.X.(*ast.CallExpr)
					if !ok || core.CalleeName(info, call) != "encoder.ReleaseMapContext" || len(call.Args) != 1 {
						continue
					}
					n++
					k++
					key := fmt.Sprintf("%s.Run/case %s/release#%d where-the-map-is-left", vm, label, k)
					obj := core.ObjOf(info, call.Args[0])
					usedAfter := token.NoPos
					next := ""
					for _, later := range list[i+1:] {
						ast.Inspect(later, func(m ast.Node) bool {
							if id, isID := m.(*ast.Ident); isID && obj != nil && info.Uses[id] == obj && usedAfter == token.NoPos {
								usedAfter = id.Pos()
							}
							return true
						})
						if as, isAs := later.(*ast.AssignStmt); isAs && len(as.Lhs) == 1 && len(as.Rhs) == 1 && next == "" {
							if id, isID := as.Lhs[0].(*ast.Ident); isID && id.Name == "code" {
								next = types.ExprString(as.Rhs[0])
							}
						}
					}
					switch {
					case usedAfter != token.NoPos:
						rc.Bad(key, usedAfter, "%s is used after it was handed to ReleaseMapContext: the pool may have given it to another goroutine", types.ExprString(call.Args[0]))
					case strings.Contains(label, "OpMapEnd") || next == "code.End.Next":
						rc.OK(key, call.Pos(), "released where the interpreter goes on behind the map (%s)", map[bool]string{true: "OpMapEnd", false: "code = code.End.Next"}[strings.Contains(label, "OpMapEnd")])
					default:
						rc.Bad(key, call.Pos(), "the map context is handed to ReleaseMapContext in the clause of %s and the interpreter goes on with code = %s, to operations of the same map that load the context again (OpMapKey reads Idx and Len, and advances the iterator): from the release on the object can be the context of another goroutine's map", label, next)
					}
				}
			}
		}
	}
	if n < 8 {
		rc.Unknown("encoder-vms/ReleaseMapContext-sites", token.NoPos, "found %d calls of ReleaseMapContext in the interpreters, fewer than the 8 confirmed by hand (OpMapKey and OpMapEnd in each)", n)
	}
}

// ---- C10.R13 the selector a path decoder puts into the shared Path is taken out again before anything can leave ----

// While a path with several selectors is evaluated, mapDecoder.DecodePath and sliceDecoder.DecodePath put the next
// selector into the compiled Path the caller handed in (finding F13 records that the Path is shared at all) and put
// the old one back behind the nested call. Put back only behind the test of the nested call's error, a document that
// is cut off inside an element leaves the caller's Path changed for good: every later call on that Path evaluates
// another path. Obligation, for every store `….Path.node = child` in the decoder package: the next statement but one
// in the same list is the store that puts the saved node back, with only the nested call between them.
func c10r13(rc *core.RC) {
	p := rc.P
	n := 0
	for _, fd := range p.Funcs("decoder") {
		if fd.Body == nil {
			continue
		}
		info := p.Info(fd)
		isNodeStore := func(st ast.Stmt) (ast.Expr, bool) {
			as, ok := st.(*ast.AssignStmt)
			if !ok || len(as.Lhs) != 1 || len(as.Rhs) != 1 || as.Tok != token.ASSIGN {
				return nil, false
			}
			sel, isSel := core.Unparen(as.Lhs[0]).(*ast.SelectorExpr)
			if !isSel || sel.Sel.Name != "node" {
				return nil, false
			}
			if f := core.FieldOf(info, sel.X); f == nil || f.Name() != "Path" {
				return nil, false
			}
			return as.Rhs[0], true
		}
		var lists [][]ast.Stmt
		ast.Inspect(fd.Body, func(m ast.Node) bool {
			switch x := m.(type) {
			case *ast.BlockStmt:
				lists = append(lists, x.List)
			case *ast.CaseClause:
				lists = append(lists, x.Body)
			}
			return true
		})
		k := 0
		for _, l := range lists {
			for i, st := range l {
				rhs, ok := isNodeStore(st)
				if !ok {
					continue
				}
				// the saved node: a local defined from ….Path.node
				if o := core.ObjOf(info, rhs); o != nil {
					if def := singleDef(info, fd.Body, o); def != nil {
						if s2, isSel := core.Unparen(def).(*ast.SelectorExpr); isSel && s2.Sel.Name == "node" {
							continue // this is the store that puts the old node back
						}
					}
				}
				n++
				k++
				rc.Touch(p.FuncName(fd))
				key := fmt.Sprintf("%s/selector-store#%d put-back-before-anything-leaves", p.FuncName(fd), k)
				good := false
				if i+2 < len(l) {
					if _, isBack := isNodeStore(l[i+2]); isBack {
						if as, isAs := l[i+1].(*ast.AssignStmt); isAs && len(as.Rhs) == 1 {
							if _, isCall := core.Unparen(as.Rhs[0]).(*ast.CallExpr); isCall {
								good = true
							}
						}
					}
				}
				if good {
					rc.OK(key, st.Pos(), "the nested call is the only statement between the store and the store that puts the old selector back")
				} else {
					rc.Bad(key, st.Pos(), "the old selector is not put back directly behind the nested call: an error of the nested call (a document cut off inside the element) leaves the caller's compiled Path with this level's selector replaced, and every later Extract or Unmarshal with that Path evaluates another path")
				}
			}
		}
	}
	if n < 2 {
		rc.Unknown("decoder/Path.node-stores", token.NoPos, "found %d stores of a child selector into the shared Path, fewer than the 2 confirmed by hand", n)
	}
}
