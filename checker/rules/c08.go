package rules

import (
	"fmt"
	"go/ast"
	"go/constant"
	"go/token"
	"go/types"
	"sort"
	"strings"

	"golang.org/x/tools/go/cfg"
	"golang.org/x/tools/go/ssa"

	"verif/checker/core"
)

// ---- C08.R1 published programs are post-processed ----

func c08r1(rc *core.RC) {
	p := rc.P
	info := p.Pkg("encoder").TypesInfo
	n := 0
	for _, fd := range p.Funcs("encoder") {
		if fd.Body == nil {
			continue
		}
		cf := (*core.FuncCFG)(nil)
		// processed(x): a call setTotalLengthToInterfaceOp(x) precedes the use, or x := copyToInterfaceOpcode(y) with processed(y)
		var processed func(obj types.Object, at ast.Node, depth int) bool
		processed = func(obj types.Object, at ast.Node, depth int) bool {
			if obj == nil || depth > 3 {
				return false
			}
			if cf == nil {
				cf = core.BuildCFG(fd.Body, info)
			}
			ok := false
			ast.Inspect(fd.Body, func(m ast.Node) bool {
				switch x := m.(type) {
				case *ast.CallExpr:
					if core.CalleeName(info, x) == "encoder.setTotalLengthToInterfaceOp" && len(x.Args) == 1 && core.ObjOf(info, x.Args[0]) == obj {
						if cf.NodeBefore(x, at) {
							ok = true
						}
					}
				case *ast.AssignStmt:
					for i, l := range x.Lhs {
						if core.ObjOf(info, l) == obj && i < len(x.Rhs) {
							if c, isCall := core.Unparen(x.Rhs[i]).(*ast.CallExpr); isCall && core.CalleeName(info, c) == "encoder.copyToInterfaceOpcode" && len(c.Args) == 1 {
								if processed(core.ObjOf(info, c.Args[0]), x, depth+1) {
									ok = true
								}
							}
						}
					}
				}
				return true
			})
			return ok
		}
		check := func(field string, val ast.Expr, at ast.Node) {
			n++
			rc.Touch(p.FuncName(fd))
			key := fmt.Sprintf("%s/publish %s", p.FuncName(fd), field)
			obj := core.ObjOf(info, val)
			if obj == nil {
				rc.Unknown(key, at.Pos(), "published program is not a variable: %s", core.Src(p.Fset, val))
				return
			}
			if processed(obj, at, 0) {
				rc.OK(key, at.Pos(), "%s went through setTotalLengthToInterfaceOp before it is published", obj.Name())
			} else {
				rc.Bad(key, at.Pos(), "the opcode list %s is published as executable program %s without setTotalLengthToInterfaceOp: its OpInterface ops keep Length 0, the interpreter takes Length+3 as the current frame size, and the callee frame overlaps the caller's slots", obj.Name(), field)
			}
		}
		ast.Inspect(fd.Body, func(m ast.Node) bool {
			switch x := m.(type) {
			case *ast.CompositeLit:
				tv := info.Types[x]
				if tv.Type == nil || !strings.HasSuffix(strings.TrimPrefix(tv.Type.String(), "*"), "encoder.OpcodeSet") {
					return true
				}
				for _, e := range x.Elts {
					kv, ok := e.(*ast.KeyValueExpr)
					if !ok {
						continue
					}
					id, _ := kv.Key.(*ast.Ident)
					if id != nil && strings.HasSuffix(id.Name, "KeyCode") {
						check("OpcodeSet."+id.Name, kv.Value, x)
					}
				}
			case *ast.AssignStmt:
				for i, l := range x.Lhs {
					f := core.FieldOf(info, l)
					if f == nil || i >= len(x.Rhs) {
						continue
					}
					owner := ""
					if sel, ok := core.Unparen(l).(*ast.SelectorExpr); ok {
						if s := info.Selections[sel]; s != nil {
							owner = strings.TrimPrefix(s.Recv().String(), "*")
						}
					}
					if f.Name() == "Code" && strings.HasSuffix(owner, "encoder.CompiledCode") {
						check("CompiledCode.Code", x.Rhs[i], x)
					}
					if strings.HasSuffix(f.Name(), "KeyCode") && strings.HasSuffix(owner, "encoder.OpcodeSet") {
						check("OpcodeSet."+f.Name(), x.Rhs[i], x)
					}
				}
			}
			return true
		})
	}
	if n < 5 {
		rc.Unknown("encoder/published-programs", token.NoPos, "found %d publication sites (confirmed: 4 OpcodeSet code fields in codeToOpcodeSet + CompiledCode.Code in linkRecursiveCode)", n)
	}
}

// ---- C08.R2 slot-field agreement ----

func c08r2(rc *core.RC) {
	p := rc.P
	// fields folded into the frame size by MaxIdx
	fd := p.Func("encoder", "Opcode.MaxIdx")
	if fd == nil {
		rc.Unknown("encoder.Opcode.MaxIdx", token.NoPos, "not found")
		return
	}
	info := p.Info(fd)
	sized := map[string]bool{}
	ast.Inspect(fd.Body, func(n ast.Node) bool {
		if f := fieldOfNode(info, n); f != nil {
			sized[f.Name()] = true
		}
		return true
	})
	slotFns := map[string]int{"load": 1, "store": 1, "loadNPtr": 1} // index of the slot argument
	for _, vm := range core.VMPkgs {
		used := map[string]token.Pos{}
		for _, f := range p.Funcs(vm) {
			if f.Body == nil {
				continue
			}
			finfo := p.Info(f)
			ast.Inspect(f.Body, func(n ast.Node) bool {
				call, ok := n.(*ast.CallExpr)
				if !ok {
					return true
				}
				o := calledIdent(finfo, call)
				if o == nil {
					return true
				}
				if idx, ok := slotFns[o.Name()]; ok && o.Pkg() == p.Pkg(vm).Types && idx < len(call.Args) {
					// the slot offset is the field selected last (c.End.Next.Idx -> Idx); End/Next only navigate
					if fld := fieldOfNode(finfo, core.Unparen(call.Args[idx])); fld != nil {
						if _, seen := used[fld.Name()]; !seen {
							used[fld.Name()] = call.Args[idx].Pos()
						}
					}
					rc.CallSites++
				}
				return true
			})
		}
		var names []string
		for n := range used {
			names = append(names, n)
		}
		sort.Strings(names)
		if len(names) < 2 {
			rc.Unknown(vm+"/slot-fields", token.NoPos, "only %d Opcode fields used as slot offsets", len(names))
		}
		for _, n := range names {
			rc.Check(sized[n], fmt.Sprintf("%s/slot-field %s", vm, n), used[n], "Opcode.%s addresses a frame slot in load/store/loadNPtr; MaxIdx folds it into the frame size", n)
		}
	}
}

func fieldOfNode(info *types.Info, n ast.Node) *types.Var {
	sel, ok := n.(*ast.SelectorExpr)
	if !ok {
		return nil
	}
	f := core.FieldOf(info, sel)
	if f == nil {
		return nil
	}
	if s := info.Selections[sel]; s != nil && strings.HasSuffix(strings.TrimPrefix(s.Recv().String(), "*"), "encoder.Opcode") {
		return f
	}
	return nil
}

// ---- C08.R3 frame trailer constant ----

func c08r3(rc *core.RC) {
	p := rc.P
	// trailer slots addressed by the end ops, read from copyToInterfaceOpcode and linkRecursiveCode:
	// Idx (+1 slot), ElemIdx = Idx + 1 slot, Length = Idx + 2 slots  -> 3 slots behind the program's own slots
	trailer := func(fd *ast.FuncDecl) (int64, bool) {
		info := p.Info(fd)
		word := p.Pkg("encoder").Types.Scope().Lookup("uintptrSize")
		max := int64(-1)
		ast.Inspect(fd.Body, func(n ast.Node) bool {
			as, ok := n.(*ast.AssignStmt)
			if !ok || len(as.Lhs) != 1 {
				return true
			}
			f := core.FieldOf(info, as.Lhs[0])
			if f == nil {
				return true
			}
			// count multiples of uintptrSize on the right-hand side, relative to Idx
			var slots int64 = -1
			switch f.Name() {
			case "Idx":
				slots = 0
			case "ElemIdx", "Length":
				rhs := core.Unparen(as.Rhs[0])
				if be, ok := rhs.(*ast.BinaryExpr); ok && be.Op == token.ADD {
					if core.ObjOf(info, be.Y) == word {
						slots = 1
					} else if mul, ok := core.Unparen(be.Y).(*ast.BinaryExpr); ok && mul.Op == token.MUL {
						if k, ok := core.ConstInt(info, mul.X); ok && core.ObjOf(info, mul.Y) == word {
							slots = k
						}
					}
				}
			}
			if slots > max {
				max = slots
			}
			return true
		})
		return max + 1, max >= 0
	}
	want := int64(-1)
	for _, fn := range []string{"copyToInterfaceOpcode", "Compiler.linkRecursiveCode"} {
		fd := p.Func("encoder", fn)
		if fd == nil {
			rc.Unknown("encoder."+fn, token.NoPos, "not found")
			continue
		}
		rc.Touch("encoder." + fn)
		t, ok := trailer(fd)
		if !ok {
			rc.Unknown("encoder."+fn+"/trailer-slots", fd.Pos(), "trailer slot assignments not recognised")
			continue
		}
		if want < 0 {
			want = t
		}
		rc.Check(t == want, "encoder."+fn+"/trailer-slots", fd.Pos(), "end op addresses %d trailer slots (Idx, ElemIdx, Length)", t)
	}
	if want < 0 {
		return
	}
	// where the trailer starts: in linkRecursiveCode the end op's Idx must be exactly totalLength slots
	// (slots 0..totalLength-1 belong to the program, the frame has totalLength+K slots)
	if fd := p.Func("encoder", "Compiler.linkRecursiveCode"); fd != nil {
		info := p.Info(fd)
		le := &core.LinearEval{Info: info, Pkg: p.Pkg("encoder"), Body: fd.Body}
		word, _ := core.ConstInt(info, ast.NewIdent("uintptrSize"))
		if c, ok := p.Pkg("encoder").Types.Scope().Lookup("uintptrSize").(*types.Const); ok {
			if v, ok2 := constInt64(c); ok2 {
				word = v
			}
		}
		var idxRHS, totalDef ast.Expr
		totalName := "totalLength"
		ast.Inspect(fd.Body, func(n ast.Node) bool {
			as, ok := n.(*ast.AssignStmt)
			if !ok || len(as.Lhs) != 1 || len(as.Rhs) != 1 {
				return true
			}
			if f := core.FieldOf(info, as.Lhs[0]); f != nil && f.Name() == "Idx" {
				idxRHS = as.Rhs[0]
			}
			// the local that holds the program's length, by role: assigned from an expression that calls TotalLength()
			if id, ok := as.Lhs[0].(*ast.Ident); ok {
				ast.Inspect(as.Rhs[0], func(k ast.Node) bool {
					if c, isCall := k.(*ast.CallExpr); isCall && strings.HasSuffix(core.CalleeName(info, c), ".TotalLength") {
						totalDef, totalName = as.Rhs[0], id.Name
					}
					return true
				})
			}
			return true
		})
		key := "encoder.linkRecursiveCode/trailer-start"
		if idxRHS == nil || totalDef == nil || word == 0 {
			rc.Unknown(key, fd.Pos(), "assignment of the end op's Idx or of totalLength not recognised")
		} else {
			base := le.Eval(idxRHS)
			// base = word*totalLength + word*c0
			c0, okc := int64(0), base.OK
			for a, c := range base.Terms {
				if c != 0 && !((a == totalName || strings.HasSuffix(a, ".TotalLength()")) && c == word) {
					okc = false
				}
			}
			if okc && base.Const%word == 0 {
				c0 = base.Const / word
			} else {
				okc = false
			}
			if !okc {
				rc.Unknown(key, idxRHS.Pos(), "end op Idx %s is not of the form (totalLength + c) * uintptrSize", base)
			} else {
				rc.Check(c0 == 0, key, idxRHS.Pos(), "the trailer of a recursive frame starts at slot totalLength%+d; the program owns slots 0..totalLength-1 and the frame has totalLength+%d slots, so the %d trailer slots fit only if it starts at totalLength", c0, want, want)
			}
		}
	}
	// which program each frame length is taken from: the interpreters advance the frame base by CurLen
	// (the frame of the program that holds the OpRecursive) and reserve NextLen more (the program jumped to)
	if fd := p.Func("encoder", "Compiler.linkRecursiveCode"); fd != nil {
		info := p.Info(fd)
		le := &core.LinearEval{Info: info, Pkg: p.Pkg("encoder"), Body: fd.Body}
		var holder, target types.Object // the OpRecursive opcode; the program stored in Jmp.Code
		ast.Inspect(fd.Body, func(n ast.Node) bool {
			switch x := n.(type) {
			case *ast.RangeStmt:
				if strings.Contains(types.ExprString(x.X), "recursiveCodes") && x.Value != nil && holder == nil {
					holder = core.ObjOf(info, x.Value)
				}
			case *ast.AssignStmt:
				if len(x.Lhs) == 1 && len(x.Rhs) == 1 {
					if f := core.FieldOf(info, x.Lhs[0]); f != nil && f.Name() == "Code" {
						target = core.ObjOf(info, x.Rhs[0])
					}
				}
			}
			return true
		})
		for _, fl := range []struct {
			field string
			from  *types.Object
			what  string
		}{{"CurLen", &holder, "the opcode that holds the jump (its program's frame is what the interpreter steps over)"}, {"NextLen", &target, "the program stored in Jmp.Code (the frame the interpreter reserves for the callee)"}} {
			key := "encoder.linkRecursiveCode/" + fl.field + "-source"
			var rhs ast.Expr
			ast.Inspect(fd.Body, func(n ast.Node) bool {
				if as, ok := n.(*ast.AssignStmt); ok && len(as.Lhs) == 1 && len(as.Rhs) == 1 {
					if f := core.FieldOf(info, as.Lhs[0]); f != nil && f.Name() == fl.field {
						rhs = as.Rhs[0]
					}
				}
				return true
			})
			if rhs == nil || *fl.from == nil {
				rc.Unknown(key, fd.Pos(), "assignment of %s, the range over recursiveCodes or the store of Jmp.Code not recognised", fl.field)
				continue
			}
			l := le.Eval(rhs)
			wantAtom := (*fl.from).Name() + ".TotalLength()"
			ok := l.OK && l.Terms[wantAtom] == 1
			for a, c := range l.Terms {
				if c != 0 && a != wantAtom {
					ok = false
				}
			}
			rc.Check(ok, key, rhs.Pos(), "%s = %s; it must be %s + the trailer, the TotalLength of %s", fl.field, l, wantAtom, fl.what)
		}
	}
	if fd := p.Func("encoder", "copyToInterfaceOpcode"); fd != nil {
		info := p.Info(fd)
		okInc := false
		ast.Inspect(fd.Body, func(n ast.Node) bool {
			if as, ok := n.(*ast.AssignStmt); ok && as.Tok == token.ADD_ASSIGN && len(as.Lhs) == 1 {
				if f := core.FieldOf(info, as.Lhs[0]); f != nil && f.Name() == "Idx" {
					if o := core.ObjOf(info, as.Rhs[0]); o != nil && o.Name() == "uintptrSize" {
						okInc = true
					}
				}
			}
			return true
		})
		rc.Check(okInc, "encoder.copyToInterfaceOpcode/trailer-start", fd.Pos(), "the interface end op's trailer starts one slot after the program's last slot (Idx += uintptrSize)")
	}
	// sizing sites: `<length> + K`
	checkK := func(pkg, fn string, fd *ast.FuncDecl, filter func(*ast.AssignStmt) bool) {
		info := p.Info(fd)
		ast.Inspect(fd.Body, func(n ast.Node) bool {
			as, ok := n.(*ast.AssignStmt)
			if !ok || len(as.Lhs) != 1 || len(as.Rhs) != 1 || !filter(as) {
				return true
			}
			be, ok := core.Unparen(as.Rhs[0]).(*ast.BinaryExpr)
			if !ok || be.Op != token.ADD {
				return true
			}
			k, ok := core.ConstInt(info, be.Y)
			if !ok {
				return true
			}
			name := ""
			if id, ok := as.Lhs[0].(*ast.Ident); ok {
				name = id.Name
			}
			rc.Check(k == want, fmt.Sprintf("%s.%s/frame-size %s", pkg, fn, name), as.Pos(), "frame is sized with +%d extra slots; the end op addresses %d trailer slots", k, want)
			return true
		})
	}
	if fd := p.Func("encoder", "Compiler.linkRecursiveCode"); fd != nil {
		checkK("encoder", "linkRecursiveCode", fd, func(as *ast.AssignStmt) bool {
			id, ok := as.Lhs[0].(*ast.Ident)
			return ok && strings.HasSuffix(id.Name, "TotalLength")
		})
	}
	for _, vm := range core.VMPkgs {
		if fd := p.Func(vm, "Run"); fd != nil {
			checkK(vm, "Run", fd, func(as *ast.AssignStmt) bool {
				id, ok := as.Lhs[0].(*ast.Ident)
				return ok && strings.HasSuffix(strings.ToLower(id.Name), "totallength")
			})
		}
	}
}

// ---- C08.R4 frame base refresh ----

func c08r4(rc *core.RC) {
	p := rc.P
	for _, vm := range core.VMPkgs {
		fd := p.Func(vm, "Run")
		if fd == nil {
			continue
		}
		rc.Touch(vm + ".Run")
		info := p.Info(fd)
		var ctxptr types.Object
		ast.Inspect(fd.Body, func(n ast.Node) bool {
			if as, ok := n.(*ast.AssignStmt); ok && as.Tok == token.DEFINE && len(as.Lhs) == 1 {
				if id, ok := as.Lhs[0].(*ast.Ident); ok && id.Name == "ctxptr" {
					ctxptr = info.Defs[id]
				}
			}
			return true
		})
		if ctxptr == nil {
			rc.Unknown(vm+".Run/ctxptr", fd.Pos(), "frame base variable not found")
			continue
		}
		cf := core.BuildCFG(fd.Body, info)
		nInv := 0
		uses := core.StaleUses(cf, core.StaleSpec{
			Info: info,
			Invalidate: func(n ast.Node) []types.Object {
				if as, ok := n.(*ast.AssignStmt); ok {
					for _, l := range as.Lhs {
						if f := core.FieldOf(info, l); f != nil && f.Name() == "Ptrs" {
							nInv++
							return []types.Object{ctxptr}
						}
					}
				}
				return nil
			},
		})
		if nInv < 2 {
			rc.Unknown(vm+".Run/ptrs-growth", fd.Pos(), "expected the two ctx.Ptrs growth sites, found %d", nInv)
		}
		if len(uses) == 0 {
			rc.OK(vm+".Run/ctxptr-after-growth", fd.Pos(), "after every assignment to ctx.Ptrs the frame base is recomputed before it is used")
		}
		for i, u := range uses {
			if i > 3 {
				break
			}
			rc.Bad(fmt.Sprintf("%s.Run/case %s/ctxptr-after-growth", vm, "?"), u.Pos, "ctx.Ptrs was reassigned (append may reallocate) and ctxptr is used in `%s` before it is recomputed from ctx.Ptr(): loads and stores go to the old backing array", core.Clip(core.Src(p.Fset, u.Node), 80))
		}
	}
}

// ---- C08.R5 cycle bookkeeping pairing ----

func c08r5(rc *core.RC) {
	p := rc.P
	t := loadOpTable(rc)
	if t == nil {
		return
	}
	for _, vm := range core.VMPkgs {
		cl, sw := opClauses(rc, vm, t)
		if cl == nil {
			continue
		}
		fd := p.Func(vm, "Run")
		info := p.Info(fd)
		cf := core.BuildCFG(fd.Body, info)
		isSeenAppend := func(n ast.Node) bool {
			as, ok := n.(*ast.AssignStmt)
			if !ok || len(as.Lhs) != 1 {
				return false
			}
			f := core.FieldOf(info, as.Lhs[0])
			if f == nil || f.Name() != "SeenPtr" {
				return false
			}
			c, ok := core.Unparen(as.Rhs[0]).(*ast.CallExpr)
			return ok && core.IsBuiltin(info, c, "append")
		}
		isLevelInc := func(n ast.Node, tok token.Token) bool {
			s, ok := n.(*ast.IncDecStmt)
			if !ok || s.Tok != tok {
				return false
			}
			id, ok := s.X.(*ast.Ident)
			return ok && id.Name == "recursiveLevel"
		}
		for _, op := range []string{"OpInterface", "OpRecursive"} {
			var cc *ast.CaseClause
			for k, c := range cl {
				for _, lab := range strings.Split(k, ",") {
					if lab == op {
						cc = c
					}
				}
			}
			key := fmt.Sprintf("%s.Run/case %s/seen-push-reaches-frame", vm, op)
			if cc == nil {
				rc.Unknown(key, sw.Pos(), "case not found")
				continue
			}
			// the scan under the level test
			scan := false
			ast.Inspect(cc, func(n ast.Node) bool {
				if ifs, ok := n.(*ast.IfStmt); ok && strings.Contains(core.Src(p.Fset, ifs.Cond), "StartDetectingCyclesAfter") {
					ast.Inspect(ifs.Body, func(m ast.Node) bool {
						if r, ok := m.(*ast.RangeStmt); ok {
							if f := core.FieldOf(info, r.X); f != nil && f.Name() == "SeenPtr" {
								scan = true
							}
						}
						return true
					})
				}
				return true
			})
			rc.Check(scan, fmt.Sprintf("%s.Run/case %s/seen-scan", vm, op), cc.Pos(), "visited pointers are scanned once recursiveLevel exceeds StartDetectingCyclesAfter")
			// every path from the append reaches recursiveLevel++ or returns an error
			var app ast.Node
			ast.Inspect(cc, func(n ast.Node) bool {
				if isSeenAppend(n) {
					app = n
				}
				return true
			})
			if app == nil {
				rc.Bad(key, cc.Pos(), "the frame push does not record the visited pointer in ctx.SeenPtr")
				continue
			}
			blk, idx := cf.BlockOf(app)
			done := cf.SwitchDoneBlock(sw)
			leak := token.NoPos
			seen := map[*cfg.Block]bool{}
			var walk func(b *cfg.Block, from int)
			walk = func(b *cfg.Block, from int) {
				if leak.IsValid() {
					return
				}
				for j := from; j < len(b.Nodes); j++ {
					if isLevelInc(b.Nodes[j], token.INC) {
						return
					}
				}
				if r := core.BlockReturn(b); r != nil {
					if !core.ReturnIsError(info, r) {
						leak = r.Pos()
					}
					return
				}
				for _, s := range b.Succs {
					if s == done {
						if len(b.Nodes) > 0 {
							leak = b.Nodes[len(b.Nodes)-1].Pos()
						} else {
							leak = app.Pos()
						}
						return
					}
					if !seen[s] {
						seen[s] = true
						walk(s, 0)
					}
				}
			}
			if blk != nil {
				walk(blk, idx+1)
			}
			// and conversely: every frame entry recorded its pointer (the push dominates recursiveLevel++)
			var inc ast.Node
			ast.Inspect(cc, func(n ast.Node) bool {
				if isLevelInc(n, token.INC) {
					inc = n
				}
				return true
			})
			if inc != nil {
				rc.Check(cf.NodeBefore(app, inc), fmt.Sprintf("%s.Run/case %s/frame-entry-recorded", vm, op), app.Pos(), "the SeenPtr push is executed on every path that enters the frame (it dominates recursiveLevel++); a conditional push with an unconditional or differently conditioned pop removes entries that belong to outer frames")
			}
			if leak.IsValid() {
				rc.Bad(key, leak, "after ctx.SeenPtr was extended there is a path that leaves the case without entering a frame (no recursiveLevel++): nothing pops the entry, later pops remove the wrong ones, and an acyclic value is reported as a cycle once detection is active")
			} else {
				rc.OK(key, app.Pos(), "every path from the SeenPtr push enters the frame or returns an error")
			}
		}
		for _, op := range []string{"OpInterfaceEnd", "OpRecursiveEnd"} {
			var cc *ast.CaseClause
			for k, c := range cl {
				for _, lab := range strings.Split(k, ",") {
					if lab == op {
						cc = c
					}
				}
			}
			key := fmt.Sprintf("%s.Run/case %s/pop", vm, op)
			if cc == nil {
				rc.Unknown(key, sw.Pos(), "case not found")
				continue
			}
			dec, pop := false, false
			ast.Inspect(cc, func(n ast.Node) bool {
				if isLevelInc(n, token.DEC) {
					dec = true
				}
				if as, ok := n.(*ast.AssignStmt); ok && len(as.Lhs) == 1 {
					if f := core.FieldOf(info, as.Lhs[0]); f != nil && f.Name() == "SeenPtr" {
						if _, isSlice := core.Unparen(as.Rhs[0]).(*ast.SliceExpr); isSlice {
							pop = true
						}
					}
				}
				return true
			})
			rc.Check(dec && pop, key, cc.Pos(), "the frame pop decrements recursiveLevel and removes the last SeenPtr entry (dec=%v pop=%v)", dec, pop)
			// both are unconditional: direct statements of the clause
			direct := 0
			for _, st := range cc.Body {
				if isLevelInc(st, token.DEC) {
					direct++
				}
				if as, ok := st.(*ast.AssignStmt); ok && len(as.Lhs) == 1 {
					if f := core.FieldOf(info, as.Lhs[0]); f != nil && f.Name() == "SeenPtr" {
						direct++
					}
				}
			}
			rc.Check(direct == 2, key+"/unconditional", cc.Pos(), "recursiveLevel-- and the SeenPtr pop are top-level statements of the case (every frame exit undoes exactly what the frame entry did)")
		}
	}
}

// ---- C08.R6 roots are retained ----

func c08r6(rc *core.RC) {
	p := rc.P
	// (a) package json: every encode entry that hands header.ptr to ctx.Init keeps it in KeepRefs
	for _, name := range []string{"encode", "encodeNoEscape", "encodeIndent"} {
		fd := p.Func("json", name)
		if fd == nil {
			rc.Unknown("json."+name, token.NoPos, "entry not found")
			continue
		}
		rc.Touch("json." + name)
		info := p.Info(fd)
		// the addresses the frame gets from ctx.Init: the unsafe.Pointer operands of Init's first argument, seen
		// through one local (p, box := rootPointer(codeSet, header.ptr))
		var roots []string
		addRoots := func(e ast.Expr) {
			ast.Inspect(e, func(m ast.Node) bool {
				x, isExpr := m.(ast.Expr)
				if !isExpr {
					return true
				}
				if _, isCall := x.(*ast.CallExpr); isCall {
					return true
				}
				if t := info.TypeOf(x); t != nil && t.String() == "unsafe.Pointer" {
					if _, isSel := x.(*ast.SelectorExpr); isSel {
						roots = append(roots, types.ExprString(x))
						return false
					}
				}
				return true
			})
		}
		var initCall *ast.CallExpr
		ast.Inspect(fd.Body, func(n ast.Node) bool {
			if c, ok := n.(*ast.CallExpr); ok && core.CalleeName(info, c) == "encoder.RuntimeContext.Init" && len(c.Args) > 0 {
				initCall = c
			}
			return true
		})
		key := "json." + name + "/root-kept"
		if initCall == nil {
			rc.Unknown(key, fd.Pos(), "no call of RuntimeContext.Init found")
			continue
		}
		addRoots(initCall.Args[0])
		ast.Inspect(initCall.Args[0], func(m ast.Node) bool {
			id, ok := m.(*ast.Ident)
			if !ok {
				return true
			}
			obj := core.ObjOf(info, id)
			ast.Inspect(fd.Body, func(d ast.Node) bool {
				as, ok := d.(*ast.AssignStmt)
				if !ok || as.Tok != token.DEFINE {
					return true
				}
				for _, l := range as.Lhs {
					if lid, ok := l.(*ast.Ident); ok && core.ObjOf(info, lid) == obj {
						for _, r := range as.Rhs {
							addRoots(r)
						}
					}
				}
				return true
			})
			return true
		})
		// appended unconditionally: a statement of the function body itself, behind Init (which empties KeepRefs)
		kept := map[string]bool{}
		for _, st := range fd.Body.List {
			as, ok := st.(*ast.AssignStmt)
			if !ok || len(as.Lhs) != 1 || len(as.Rhs) != 1 || as.Pos() < initCall.Pos() {
				continue
			}
			if f := core.FieldOf(info, as.Lhs[0]); f == nil || f.Name() != "KeepRefs" {
				continue
			}
			if c, ok := core.Unparen(as.Rhs[0]).(*ast.CallExpr); ok && core.IsBuiltin(info, c, "append") {
				for _, a := range c.Args[1:] {
					kept[types.ExprString(a)] = true
				}
			}
		}
		if len(roots) == 0 {
			rc.Unknown(key, fd.Pos(), "the address handed to RuntimeContext.Init is not derived from a field of type unsafe.Pointer")
			continue
		}
		missing := ""
		for _, r := range roots {
			if !kept[r] {
				missing = r
			}
		}
		if missing == "" {
			rc.OK(key, fd.Pos(), "the root pointer placed in the frame as uintptr (%s) is also appended to ctx.KeepRefs, unconditionally and behind Init", strings.Join(roots, ", "))
		} else {
			rc.Bad(key, fd.Pos(), "the root value's address %s is stored in the frame only as a uintptr and is not appended to ctx.KeepRefs (unconditionally, behind Init): while MarshalJSON/MarshalText callbacks allocate or grow the stack, nothing the collector can see keeps the root alive or updates the address", missing)
		}
	}
	// (b) interpreters: mapCtx and the interface word are kept
	for _, vm := range core.VMPkgs {
		fd := p.Func(vm, "Run")
		if fd == nil {
			continue
		}
		info := p.Info(fd)
		kept := map[string]bool{}
		ast.Inspect(fd.Body, func(n ast.Node) bool {
			as, ok := n.(*ast.AssignStmt)
			if !ok || len(as.Lhs) != 1 {
				return true
			}
			if f := core.FieldOf(info, as.Lhs[0]); f == nil || f.Name() != "KeepRefs" {
				return true
			}
			if c, ok := core.Unparen(as.Rhs[0]).(*ast.CallExpr); ok && core.IsBuiltin(info, c, "append") && len(c.Args) == 2 {
				ast.Inspect(c.Args[1], func(m ast.Node) bool {
					if id, ok := m.(*ast.Ident); ok {
						kept[id.Name] = true
					}
					return true
				})
			}
			return true
		})
		// every value converted to uintptr and stored in a slot that comes from NewMapContext / ptrToUnsafePtr
		ast.Inspect(fd.Body, func(n ast.Node) bool {
			as, ok := n.(*ast.AssignStmt)
			if !ok || as.Tok != token.DEFINE || len(as.Lhs) != 1 || len(as.Rhs) != 1 {
				return true
			}
			c, ok := core.Unparen(as.Rhs[0]).(*ast.CallExpr)
			if !ok {
				return true
			}
			cn := core.CalleeName(info, c)
			id := as.Lhs[0].(*ast.Ident)
			switch {
			case cn == "encoder.NewMapContext":
				// kept on every way on: the append stands in the statement list of the definition itself, not in a branch
				obj := core.ObjOf(info, id)
				if obj == nil {
					obj = info.Defs[id]
				}
				sibling := false
				path := core.PathTo(fd.Body, as)
				var list []ast.Stmt
				for i := len(path) - 1; i >= 0 && list == nil; i-- {
					switch x := path[i].(type) {
					case *ast.BlockStmt:
						list = x.List
					case *ast.CaseClause:
						list = x.Body
					}
				}
				after := false
				for _, st := range list {
					if st == ast.Stmt(as) {
						after = true
						continue
					}
					if !after {
						continue
					}
					if a2, isAs := st.(*ast.AssignStmt); isAs && len(a2.Lhs) == 1 && len(a2.Rhs) == 1 {
						if f := core.FieldOf(info, a2.Lhs[0]); f != nil && f.Name() == "KeepRefs" {
							ast.Inspect(a2.Rhs[0], func(q ast.Node) bool {
								if i2, isID := q.(*ast.Ident); isID && obj != nil && info.Uses[i2] == obj {
									sibling = true
								}
								return true
							})
						}
					}
				}
				rc.Check(kept[id.Name] && sibling, fmt.Sprintf("%s.Run/keep %s", vm, id.Name), as.Pos(), "the map context, whose address is kept in a slot as uintptr, is appended to ctx.KeepRefs in the statement list that makes it (on every way on: an unordered map needs it as much as a sorted one, the iterator lives in it)")
			case strings.HasSuffix(cn, ".ptrToUnsafePtr") && id.Name == "up":
				rc.Check(kept[id.Name], fmt.Sprintf("%s.Run/keep %s", vm, id.Name), as.Pos(), "the interface word is appended to ctx.KeepRefs before its data pointer is stored as uintptr")
			}
			return true
		})
	}
}

// ---- C08.R7 compile recursion is memoised (C06.R2 from the Marshal entry points) ----

func c08r7(rc *core.RC) {
	sccRule(rc, entryRoots(rc, encodeEntryNames), "encoding", func(f *ssa.Function) bool {
		return f.Pkg != nil && f.Pkg.Pkg.Path() == core.PkgPaths["encoder"] && !scannerFiles[rc.P.FileBase(f.Pos())]
	})
}

// ---- C08.R8 cached programs are immutable ----

var compiledTypes = map[string]bool{"Opcode": true, "OpcodeSet": true, "CompiledCode": true}

func c08r8(rc *core.RC) {
	p := rc.P
	compileFiles := map[string]bool{"code.go": true, "compiler.go": true, "opcode.go": true}
	n := 0
	for _, short := range append([]string{"encoder", "json"}, core.VMPkgs...) {
		for _, fd := range p.Funcs(short) {
			if fd.Body == nil {
				continue
			}
			info := p.Info(fd)
			file := p.FileBase(fd.Pos())
			ast.Inspect(fd.Body, func(m ast.Node) bool {
				var targets []ast.Expr
				switch x := m.(type) {
				case *ast.AssignStmt:
					targets = x.Lhs
				case *ast.IncDecStmt:
					targets = []ast.Expr{x.X}
				}
				for _, tg := range targets {
					sel, ok := core.Unparen(tg).(*ast.SelectorExpr)
					if !ok {
						continue
					}
					s := info.Selections[sel]
					if s == nil || s.Kind() != types.FieldVal {
						continue
					}
					owner := strings.TrimPrefix(s.Recv().String(), "*")
					i := strings.LastIndex(owner, ".")
					if i < 0 || !strings.HasSuffix(owner[:i], "internal/encoder") || !compiledTypes[owner[i+1:]] {
						continue
					}
					n++
					key := fmt.Sprintf("%s/write %s.%s", p.FuncName(fd), owner[i+1:], sel.Sel.Name)
					if short == "encoder" && compileFiles[file] {
						rc.OK(key, tg.Pos(), "written while the program is being built (compile-time file %s)", file)
						continue
					}
					if owner[i+1:] == "OpcodeSet" && sel.Sel.Name == "QueryCache" {
						rc.OK(key, tg.Pos(), "query cache (guarded by cacheMu, see C10.R5)")
						continue
					}
					rc.Bad(key, tg.Pos(), "a field of a compiled, cached and shared %s is written at run time in %s: later encodings of the same type (and concurrent ones) see the modified program", owner[i+1:], file)
				}
				return true
			})
		}
	}
	if n < 30 {
		rc.Unknown("encoder/compiled-writes", token.NoPos, "found only %d writes to Opcode/OpcodeSet/CompiledCode fields", n)
	}
}

func constInt64(c *types.Const) (int64, bool) {
	return constant.Int64Val(constant.ToInt(c.Val()))
}

// ---- C08.R9 every recursive reference has a registered target ----

func c08r9(rc *core.RC) {
	p := rc.P
	n := 0
	for _, fd := range p.Funcs("encoder") {
		if fd.Body == nil {
			continue
		}
		info := p.Info(fd)
		emits, registers := false, false
		ast.Inspect(fd.Body, func(m ast.Node) bool {
			as, ok := m.(*ast.AssignStmt)
			if !ok || len(as.Lhs) != 1 {
				return true
			}
			lhs := core.Unparen(as.Lhs[0])
			if st, ok := lhs.(*ast.StarExpr); ok {
				if f := core.FieldOf(info, st.X); f != nil && f.Name() == "recursiveCodes" {
					emits = true
				}
			}
			if ix, ok := lhs.(*ast.IndexExpr); ok {
				if f := core.FieldOf(info, ix.X); f != nil && f.Name() == "structTypeToCodes" {
					registers = true
				}
			}
			return true
		})
		if !emits {
			continue
		}
		n++
		rc.Touch(p.FuncName(fd))
		key := p.FuncName(fd) + "/registers-struct-body"
		if registers {
			rc.OK(key, fd.Pos(), "the function that can emit a recursive reference to its struct type also registers the type's body in ctx.structTypeToCodes")
		} else {
			rc.Bad(key, fd.Pos(), "this function emits OpRecursive references to its struct type but, unlike its sibling, never registers the type's program in ctx.structTypeToCodes; linkRecursiveCode then calls copyOpcode(codes.First()) on a missing entry (nil): a struct that embeds a recursive struct cannot be compiled")
		}
	}
	// consumer side: the lookup result is used without an existence test
	if fd := p.Func("encoder", "Compiler.linkRecursiveCode"); fd != nil {
		info := p.Info(fd)
		checked := false
		ast.Inspect(fd.Body, func(m ast.Node) bool {
			if as, ok := m.(*ast.AssignStmt); ok && len(as.Lhs) == 2 && len(as.Rhs) == 1 {
				if ix, ok := core.Unparen(as.Rhs[0]).(*ast.IndexExpr); ok {
					if f := core.FieldOf(info, ix.X); f != nil && f.Name() == "structTypeToCodes" {
						checked = true
					}
				}
			}
			return true
		})
		if checked {
			rc.Note("encoder.linkRecursiveCode/lookup", fd.Pos(), "the registered program is looked up with the comma-ok form")
		}
	}
	if n < 2 {
		rc.Unknown("encoder/recursive-emitters", token.NoPos, "found %d functions that emit recursive references (confirmed: StructCode.ToOpcode and ToAnonymousOpcode)", n)
	}
}

// ---- C08.R10 marshaler heads: the nil test covers the address-taken case ----

// For *struct{ M T } with a pointer-receiver marshaler on T the compiler hands the handler the
// struct's own address with the indirect flag cleared and AddrForMarshalerFlags set. The head
// handler adds the field offset to that address, so it has to leave through the null exit when
// the address is nil under either flag.
func c08r10(rc *core.RC) {
	p := rc.P
	n := 0
	for _, vm := range core.VMPkgs {
		fd := p.Func(vm, "Run")
		if fd == nil {
			rc.Unknown(vm+".Run", token.NoPos, "not found")
			continue
		}
		info := p.Info(fd)
		rc.Touch(vm + ".Run")
		ast.Inspect(fd.Body, func(m ast.Node) bool {
			cc, ok := m.(*ast.CaseClause)
			if !ok {
				return true
			}
			for _, l := range cc.List {
				name := ""
				if sel, ok := l.(*ast.SelectorExpr); ok {
					name = sel.Sel.Name
				}
				switch name {
				case "OpStructHeadMarshalJSON", "OpStructHeadOmitEmptyMarshalJSON", "OpStructHeadMarshalText", "OpStructHeadOmitEmptyMarshalText":
				default:
					continue
				}
				n++
				key := vm + ".Run/case " + name + "/nil-struct-address"
				// does the handler pass an address-of-field to the marshaler helper?
				var nilTest *ast.IfStmt
				for _, st := range cc.Body {
					ifs, ok := st.(*ast.IfStmt)
					if !ok {
						continue
					}
					hasNil := false
					ast.Inspect(ifs.Cond, func(k ast.Node) bool {
						if be, ok := k.(*ast.BinaryExpr); ok && be.Op == token.EQL {
							if v, ok := core.ConstInt(info, be.Y); ok && v == 0 {
								// the address under work, whatever it is called: a local of type uintptr compared with 0
								if id, ok := core.Unparen(be.X).(*ast.Ident); ok && info.TypeOf(id) != nil && info.TypeOf(id).String() == "uintptr" {
									hasNil = true
								}
							}
						}
						return true
					})
					if hasNil {
						nilTest = ifs
						break
					}
				}
				if nilTest == nil {
					rc.Bad(key, cc.Pos(), "the handler never tests the struct address for nil before adding the field offset")
					continue
				}
				src := core.Src(p.Fset, nilTest.Cond)
				leaves := strings.Contains(core.Src(p.Fset, nilTest.Body), "code.End.Next")
				if strings.Contains(src, "AddrForMarshalerFlags") && strings.Contains(src, "IndirectFlags") && leaves {
					rc.OK(key, nilTest.Pos(), "nil struct address leaves through the null exit under IndirectFlags and under AddrForMarshalerFlags")
				} else {
					rc.Bad(key, nilTest.Pos(), "the nil test `%s` does not cover AddrForMarshalerFlags: for *struct{ M T } with a pointer-receiver marshaler the struct's address arrives with the indirect flag cleared, and a nil pointer is dereferenced", src)
				}
			}
			return true
		})
	}
	if n < 16 {
		rc.Unknown("vm/marshaler-heads", token.NoPos, "found %d marshaler head handlers (4 per interpreter expected)", n)
	}
}

// ---- C08.R11 marshaler pointer heads honour the pointer depth on every path ----

// The compiler records how many pointers lead to the struct in code.PtrNum. In the four
// marshaler pointer-head handlers the depth is followed only under IndirectFlags; for
// **struct{ M T } with a pointer-receiver marshaler (indirect flag cleared by the compiler,
// PtrNum 2 in a nested position, or a root pointer to a pointer) the handler hands the
// marshaler the address of the pointer instead of the address of the struct.
func c08r11(rc *core.RC) {
	p := rc.P
	n := 0
	for _, vm := range core.VMPkgs {
		fd := p.Func(vm, "Run")
		if fd == nil {
			continue
		}
		info := p.Info(fd)
		rc.Touch(vm + ".Run")
		ast.Inspect(fd.Body, func(m ast.Node) bool {
			cc, ok := m.(*ast.CaseClause)
			if !ok {
				return true
			}
			for _, l := range cc.List {
				name := ""
				if sel, ok := l.(*ast.SelectorExpr); ok {
					name = sel.Sel.Name
				}
				switch name {
				case "OpStructPtrHeadMarshalJSON", "OpStructPtrHeadOmitEmptyMarshalJSON", "OpStructPtrHeadMarshalText", "OpStructPtrHeadOmitEmptyMarshalText":
				default:
					continue
				}
				n++
				key := vm + ".Run/case " + name + "/pointer-depth"
				// every use of code.PtrNum in the clause, and whether one is outside an `if IndirectFlags` without else
				reads, unguarded := 0, 0
				var walk func(list []ast.Stmt, underIndirectOnly bool)
				count := func(nd ast.Node) int {
					k := 0
					ast.Inspect(nd, func(x ast.Node) bool {
						if f := core.FieldOf(info, exprOf(x)); f != nil && f.Name() == "PtrNum" {
							k++
						}
						return true
					})
					return k
				}
				walk = func(list []ast.Stmt, under bool) {
					for _, st := range list {
						if ifs, ok := st.(*ast.IfStmt); ok {
							isInd := strings.Contains(core.Src(p.Fset, ifs.Cond), "IndirectFlags")
							reads += count(ifs.Cond)
							walk(ifs.Body.List, under || (isInd && ifs.Else == nil))
							if ifs.Else != nil {
								if eb, ok := ifs.Else.(*ast.BlockStmt); ok {
									walk(eb.List, under)
								} else {
									walk([]ast.Stmt{ifs.Else}, under)
								}
							}
							continue
						}
						k := count(st)
						reads += k
						if !under {
							unguarded += k
						}
					}
				}
				walk(cc.Body, false)
				switch {
				case reads == 0:
					rc.Bad(key, cc.Pos(), "the handler never reads code.PtrNum")
				case unguarded == 0:
					rc.Bad(key, cc.Pos(), "code.PtrNum is followed only under the IndirectFlags test, which the compiler clears when it moves the pointer to a marshaler field: with more than one pointer in front of the struct the marshaler receives the address of a pointer")
				default:
					rc.OK(key, cc.Pos(), "the pointer depth is honoured when the indirect flag is clear")
				}
			}
			return true
		})
	}
	if n < 16 {
		rc.Unknown("vm/marshaler-pointer-heads", token.NoPos, "found %d marshaler pointer-head handlers (4 per interpreter expected)", n)
	}
}

// ---- C08.R12 pointer-typed struct heads honour the pointer depth when the struct is direct ----

// For a field of type **T the value opcode carries PtrNum 2. The head handlers OpStructHead…Ptr
// follow PtrNum pointers from the field's address when the struct is reached indirectly
// (IndirectFlags). When the struct is pointer-shaped and sits directly in an interface word
// (struct{ P **int } passed by value), p already is the field's value, one pointer is consumed, and
// PtrNum-1 remain; a handler that follows none then formats the inner pointer itself.
func c08r12(rc *core.RC) {
	p := rc.P
	n := 0
	// does the compiler box pointer-shaped structs whose member is a pointer to a pointer? The predicate that
	// structCode and isBoxedValue share has a clause for reflect.Ptr that looks at the kind of the element.
	boxesChains, boxPred := false, ""
	if sc := p.Func("encoder", "Compiler.structCode"); sc != nil && sc.Body != nil {
		sinfo := p.Info(sc)
		ast.Inspect(sc.Body, func(m ast.Node) bool {
			as, ok := m.(*ast.AssignStmt)
			if !ok || len(as.Lhs) != 1 || len(as.Rhs) != 1 {
				return true
			}
			ast.Inspect(as.Rhs[0], func(k ast.Node) bool {
				c, isCall := k.(*ast.CallExpr)
				if !isCall {
					return true
				}
				f := core.Callee(sinfo, c)
				if f == nil || f.Pkg() == nil || f.Pkg().Path() != core.PkgPaths["encoder"] {
					return true
				}
				pd := p.DeclOf(f)
				if pd == nil || pd.Body == nil {
					return true
				}
				pinfo := p.Info(pd)
				ast.Inspect(pd.Body, func(x ast.Node) bool {
					cc, isCC := x.(*ast.CaseClause)
					if !isCC {
						return true
					}
					isPtrClause := false
					for _, l := range cc.List {
						if sel, isSel := core.Unparen(l).(*ast.SelectorExpr); isSel && (sel.Sel.Name == "Ptr" || sel.Sel.Name == "Pointer") {
							isPtrClause = true
						}
					}
					if !isPtrClause {
						return true
					}
					for _, st := range cc.Body {
						ast.Inspect(st, func(y ast.Node) bool {
							if be, isBin := y.(*ast.BinaryExpr); isBin && (be.Op == token.EQL || be.Op == token.NEQ) {
								if sel, isSel := core.Unparen(be.Y).(*ast.SelectorExpr); isSel && (sel.Sel.Name == "Ptr" || sel.Sel.Name == "Pointer") {
									if _, isCall := core.Unparen(be.X).(*ast.CallExpr); isCall {
										boxesChains, boxPred = true, pinfo.Defs[pd.Name].Name()
									}
								}
							}
							return true
						})
					}
					return true
				})
				return true
			})
			return true
		})
	}
	re := func(name string) bool {
		if !strings.HasPrefix(name, "OpStructHead") {
			return false
		}
		return strings.HasSuffix(name, "Ptr") || strings.HasSuffix(name, "PtrString")
	}
	for _, vm := range core.VMPkgs {
		fd := p.Func(vm, "Run")
		if fd == nil {
			continue
		}
		info := p.Info(fd)
		rc.Touch(vm + ".Run")
		ast.Inspect(fd.Body, func(m ast.Node) bool {
			cc, ok := m.(*ast.CaseClause)
			if !ok {
				return true
			}
			for _, l := range cc.List {
				sel, ok := l.(*ast.SelectorExpr)
				if !ok || !re(sel.Sel.Name) || strings.Contains(sel.Sel.Name, "Marshal") {
					continue
				}
				n++
				key := vm + ".Run/case " + sel.Sel.Name + "/pointer-depth-when-direct"
				guardedOnly, any := true, false
				var walk func(list []ast.Stmt, under bool)
				uses := func(nd ast.Node) bool {
					u := false
					ast.Inspect(nd, func(k ast.Node) bool {
						if f := core.FieldOf(info, exprOf(k)); f != nil && f.Name() == "PtrNum" {
							u = true
						}
						return true
					})
					return u
				}
				walk = func(list []ast.Stmt, under bool) {
					for _, st := range list {
						if ifs, ok := st.(*ast.IfStmt); ok {
							isInd := strings.Contains(core.Src(p.Fset, ifs.Cond), "IndirectFlags")
							walk(ifs.Body.List, under || (isInd && ifs.Else == nil))
							if eb, ok := ifs.Else.(*ast.BlockStmt); ok {
								walk(eb.List, under)
							}
							continue
						}
						if uses(st) {
							any = true
							if !under {
								guardedOnly = false
							}
						}
					}
				}
				walk(cc.Body, false)
				switch {
				case !any:
					rc.OK(key, cc.Pos(), "the handler does not dereference by PtrNum itself")
				case guardedOnly && boxesChains:
					rc.OK(key, cc.Pos(), "code.PtrNum is followed only under the IndirectFlags test, and no struct with a pointer-to-pointer member reaches the handler with the flag clear: since fix e1f0731 the compiler compiles such a struct as one in memory and the entry points hand it over boxed (%s has a clause for pointer members; C08.R21 holds the entry points to it)", boxPred)
				case guardedOnly:
					rc.Bad(key, cc.Pos(), "code.PtrNum is followed only under the IndirectFlags test: for a pointer-shaped struct held directly in an interface word (struct{ P **T } by value) the remaining PtrNum-1 pointers are not followed and the inner pointer is formatted as if it were the value")
				default:
					rc.OK(key, cc.Pos(), "the pointer depth is honoured when the indirect flag is clear")
				}
			}
			return true
		})
	}
	if n < 100 {
		rc.Unknown("vm/pointer-typed-heads", token.NoPos, "found %d pointer-typed struct head handlers", n)
	}
}

// ---- C08.R13 memory returned by a user's marshaler is never written ----

// The slice a MarshalJSON / MarshalText method returns belongs to the user's value (it may be a
// sub-slice of a buffer the value keeps). The encoder may read it and copy it, but must not write
// through it: not append to it (append writes into spare capacity), not store an element, not use it
// as the destination of copy.
func c08r13(rc *core.RC) {
	p := rc.P
	prog := p.SSA()
	_ = prog
	n := 0
	for _, short := range []string{"encoder", "vm", "vm_indent", "vm_color", "vm_color_indent"} {
		for _, fd := range p.Funcs(short) {
			if fd.Body == nil {
				continue
			}
			name := fd.Name.Name
			if fd.Recv != nil {
				name = core.RecvString(fd.Recv.List[0].Type) + "." + name
			}
			fn := p.SSAFunc(short, name)
			if fn == nil {
				continue
			}
			var seeds []ssa.Value
			for _, b := range fn.Blocks {
				for _, ins := range b.Instrs {
					if ex, ok := ins.(*ssa.Extract); ok && ex.Index == 0 {
						if c, isCall := ex.Tuple.(*ssa.Call); isCall {
							if m := core.InvokeMethodName(c.Common()); m == "MarshalJSON" || m == "MarshalText" {
								seeds = append(seeds, ex)
							}
						}
					}
				}
			}
			if len(seeds) == 0 {
				continue
			}
			fname := p.FuncName(fd)
			rc.Touch(fname)
			for range seeds {
				n++
			}
			k := 0
			bad := false
			// writes in fn and, through arguments, in the module functions it hands the slice to (two levels)
			var scan func(f *ssa.Function, seeds []ssa.Value, depth int, via string)
			scan = func(f *ssa.Function, seeds []ssa.Value, depth int, via string) {
				alias := core.AliasClosure(f, seeds)
				// results of module callees that may return (part of) an aliased argument are aliases too
				for changed := true; changed; {
					changed = false
					for _, b := range f.Blocks {
						for _, ins := range b.Instrs {
							c, ok := ins.(*ssa.Call)
							if !ok || alias[c] {
								continue
							}
							callee := c.Common().StaticCallee()
							if callee == nil || callee.Blocks == nil || !strings.HasPrefix(callee.Pkg.Pkg.Path(), core.ModPath) {
								continue
							}
							for ai, a := range c.Common().Args {
								if !alias[a] || ai >= len(callee.Params) {
									continue
								}
								ca := core.AliasClosure(callee, []ssa.Value{callee.Params[ai]})
								for _, cb := range callee.Blocks {
									for _, ci := range cb.Instrs {
										if r, isRet := ci.(*ssa.Return); isRet && len(r.Results) > 0 && ca[r.Results[0]] {
											alias[c] = true
											changed = true
										}
									}
								}
							}
						}
					}
					if changed {
						var more []ssa.Value
						for v := range alias {
							more = append(more, v)
						}
						alias = core.AliasClosure(f, more)
					}
				}
				for _, b := range f.Blocks {
					for _, ins := range b.Instrs {
						switch x := ins.(type) {
						case *ssa.Call:
							args := x.Common().Args
							if bi, ok := x.Common().Value.(*ssa.Builtin); ok {
								if (bi.Name() == "append" || bi.Name() == "copy") && len(args) > 0 && alias[args[0]] {
									k++
									bad = true
									rc.Bad(fmt.Sprintf("%s/marshaler-result-written#%d", fname, k), core.SSAPos(x), "the slice returned by the user's MarshalJSON/MarshalText is the destination of %s%s: that writes into memory the user's value owns (append writes into spare capacity)", bi.Name(), via)
								}
								continue
							}
							callee := x.Common().StaticCallee()
							if depth <= 0 || callee == nil || callee.Blocks == nil || callee.Pkg == nil || !strings.HasPrefix(callee.Pkg.Pkg.Path(), core.ModPath) {
								continue
							}
							var sub []ssa.Value
							for ai, a := range args {
								if alias[a] && ai < len(callee.Params) {
									sub = append(sub, callee.Params[ai])
								}
							}
							if len(sub) > 0 {
								scan(callee, sub, depth-1, via+" in "+core.SSAName(callee))
							}
						case *ssa.Store:
							if ia, ok := x.Addr.(*ssa.IndexAddr); ok && alias[ia.X] {
								k++
								bad = true
								rc.Bad(fmt.Sprintf("%s/marshaler-result-written#%d", fname, k), core.SSAPos(x), "an element of the slice returned by the user's MarshalJSON/MarshalText is overwritten%s", via)
							}
						}
					}
				}
			}
			scan(fn, seeds, 2, "")
			if !bad {
				rc.OK(fname+"/marshaler-result-read-only", fd.Pos(), "%d marshaler result(s): only read or copied", len(seeds))
			}
		}
	}
	if n < 4 {
		rc.Unknown("encoder/marshaler-calls", token.NoPos, "found %d calls of user marshalers (8 confirmed)", n)
	}
}

// ---- C08.R14 no user value is handed to fmt ----

// fmt's %v family walks the value it is given through maps, slices, interfaces and struct values without any cycle
// detection. A caller-supplied value of unknown shape (an empty interface, a reflect.Value) that reaches a fmt
// formatting function turns the reported cycle into a fatal stack overflow inside the error path.
func c08r14(rc *core.RC) {
	p := rc.P
	n := 0
	for _, pk := range p.LibPkgs() {
		for _, f := range pk.Syntax {
			for _, d := range f.Decls {
				fd, ok := d.(*ast.FuncDecl)
				if !ok || fd.Body == nil {
					continue
				}
				info := pk.TypesInfo
				fn := p.FuncName(fd)
				k := 0
				ast.Inspect(fd.Body, func(m ast.Node) bool {
					c, ok := m.(*ast.CallExpr)
					if !ok {
						return true
					}
					callee := core.Callee(info, c)
					if callee == nil || callee.Pkg() == nil || callee.Pkg().Path() != "fmt" {
						return true
					}
					sig, _ := callee.Type().(*types.Signature)
					if sig == nil || !sig.Variadic() || c.Ellipsis.IsValid() {
						return true
					}
					n++
					first := sig.Params().Len() - 1
					var bad []string
					for i := first; i < len(c.Args); i++ {
						tv, has := info.Types[c.Args[i]]
						if !has || tv.Type == nil {
							continue
						}
						t := types.Unalias(tv.Type)
						if it, isIface := t.Underlying().(*types.Interface); isIface && it.NumMethods() == 0 {
							bad = append(bad, core.Src(p.Fset, c.Args[i])+" (interface{})")
						}
						if t.String() == "reflect.Value" {
							bad = append(bad, core.Src(p.Fset, c.Args[i])+" (reflect.Value)")
						}
					}
					if len(bad) == 0 {
						return true
					}
					k++
					rc.Touch(fn)
					rc.Bad(fmt.Sprintf("%s/fmt-call#%d no-user-value", fn, k), c.Pos(), "%s is given %s: fmt walks a value through maps, slices, interfaces and struct values without cycle detection, so formatting a caller-supplied value while reporting a cycle (or any other error) recurses until the stack is exhausted", core.FuncObjName(callee), strings.Join(bad, ", "))
					return true
				})
			}
		}
	}
	if n < 40 {
		rc.Unknown("module/fmt-calls", token.NoPos, "found %d calls of fmt's variadic functions in the library (confirmed: more than 50)", n)
		return
	}
	rc.OK("module/fmt-calls", token.NoPos, "%d calls of fmt's variadic formatting functions in the library: none is given an empty interface or a reflect.Value (arguments are strings, numbers, types, opcodes, errors)", n)
}

// ---- C08.R15 a marshaler method is not called on a nil pointer ----

// The helpers that call the user's MarshalJSON / MarshalText obtain the value through reflect. encoding/json writes
// null for a nil pointer and does not call the method (a pointer-receiver method on a nil pointer usually dereferences
// it). Every such call in the encoder's helpers has to be behind a returning test `rv.Kind() == reflect.Ptr && rv.IsNil()`.
func c08r15(rc *core.RC) {
	p := rc.P
	n := 0
	for _, fd := range p.Funcs("encoder") {
		if fd.Body == nil {
			continue
		}
		info := p.Info(fd)
		var calls []*ast.CallExpr
		ast.Inspect(fd.Body, func(m ast.Node) bool {
			c, ok := m.(*ast.CallExpr)
			if !ok {
				return true
			}
			sel, isSel := c.Fun.(*ast.SelectorExpr)
			if !isSel || (sel.Sel.Name != "MarshalJSON" && sel.Sel.Name != "MarshalText") {
				return true
			}
			// an interface method call on a local obtained by a type assertion
			if tv, has := info.Types[sel.X]; has {
				if _, isIface := tv.Type.Underlying().(*types.Interface); isIface {
					calls = append(calls, c)
				}
			}
			return true
		})
		if len(calls) == 0 {
			continue
		}
		// is the asserted value taken from a reflect.Value?
		usesReflect := false
		ast.Inspect(fd.Body, func(m ast.Node) bool {
			if c, ok := m.(*ast.CallExpr); ok && core.CalleeName(info, c) == "reflect.Value.Interface" {
				usesReflect = true
			}
			return true
		})
		if !usesReflect {
			continue
		}
		fn := p.FuncName(fd)
		rc.Touch(fn)
		cf := core.BuildCFGFor(fd, info)
		// the guarding test
		var guard *ast.IfStmt
		ast.Inspect(fd.Body, func(m ast.Node) bool {
			ifs, ok := m.(*ast.IfStmt)
			if !ok || guard != nil {
				return true
			}
			isNil, isPtr := false, false
			ast.Inspect(ifs.Cond, func(k ast.Node) bool {
				if c, isCall := k.(*ast.CallExpr); isCall && core.CalleeName(info, c) == "reflect.Value.IsNil" {
					isNil = true
				}
				if be, isBin := k.(*ast.BinaryExpr); isBin && be.Op == token.EQL {
					if c, isCall := core.Unparen(be.X).(*ast.CallExpr); isCall && core.CalleeName(info, c) == "reflect.Value.Kind" {
						isPtr = true
					}
				}
				return true
			})
			if !isNil || !isPtr {
				return true
			}
			for _, st := range ifs.Body.List {
				if _, isRet := st.(*ast.ReturnStmt); isRet {
					guard = ifs
				}
			}
			return true
		})
		for i, c := range calls {
			n++
			key := fmt.Sprintf("%s/%s-call#%d not-on-nil-pointer", fn, c.Fun.(*ast.SelectorExpr).Sel.Name, i+1)
			if guard == nil {
				rc.Bad(key, c.Pos(), "%s calls the user's %s on the value it took out of a reflect.Value without a returning test for a nil pointer: Marshal([]*T{nil}) with a pointer-receiver method calls it on nil (panic in the method) where encoding/json writes null", fn, c.Fun.(*ast.SelectorExpr).Sel.Name)
				continue
			}
			gb, _ := cf.BlockOf(guard.Cond)
			cb, _ := cf.BlockOf(c)
			rc.Check(gb != nil && cb != nil && (gb == cb || cf.Dominates(gb, cb)) && guard.Pos() < c.Pos(), key, c.Pos(), "the call is behind the returning test `%s`", core.Src(p.Fset, guard.Cond))
		}
	}
	if n < 6 {
		rc.Unknown("encoder/marshaler-calls", token.NoPos, "found %d marshaler method calls on reflected values (confirmed: 3 in AppendMarshalJSON, 3 in its indent twin, 1 each in the two text helpers)", n)
	}
}

// ---- C08.R16 a map behind several pointers at the root ----

// The root compiler (typeToCode) strips one pointer and compiles the rest. A map value is itself the pointer the map
// opcodes work on, so `*map` is compiled as a pointer code again (ptrCode(PtrTo(typ))). The same holds behind more
// pointers: when what remains after the stripped pointer is a chain of pointers ending in a map, the whole original
// type has to go through ptrCode, or the map opcodes read a pointer variable as a map header.
func c08r16(rc *core.RC) {
	p := rc.P
	fd := p.Func("encoder", "Compiler.typeToCode")
	key := "encoder.(*Compiler).typeToCode/pointer-chain-to-map"
	if fd == nil || fd.Body == nil {
		rc.Unknown(key, token.NoPos, "typeToCode not found")
		return
	}
	rc.Touch("encoder.(*Compiler).typeToCode")
	info := p.Info(fd)
	// the variable that keeps the type as it was before the pointer was stripped
	var typParam types.Object
	for _, f := range fd.Type.Params.List {
		for _, nm := range f.Names {
			typParam = info.Defs[nm]
		}
	}
	saved := map[types.Object]bool{}
	ast.Inspect(fd.Body, func(m ast.Node) bool {
		if as, ok := m.(*ast.AssignStmt); ok && len(as.Lhs) == 1 && len(as.Rhs) == 1 && core.ObjOf(info, as.Rhs[0]) == typParam {
			if o := core.ObjOf(info, as.Lhs[0]); o != nil && o != typParam {
				saved[o] = true
			}
		}
		return true
	})
	// (1) the direct case: kind Map under isPtr returns ptrCode(PtrTo(typ))
	direct, chain := false, false
	ast.Inspect(fd.Body, func(m ast.Node) bool {
		ifs, ok := m.(*ast.IfStmt)
		if !ok {
			return true
		}
		var ret *ast.CallExpr
		for _, st := range ifs.Body.List {
			if r, isRet := st.(*ast.ReturnStmt); isRet && len(r.Results) == 1 {
				if c, isCall := core.Unparen(r.Results[0]).(*ast.CallExpr); isCall && strings.HasSuffix(core.CalleeName(info, c), "ptrCode") {
					ret = c
				}
			}
		}
		if ret == nil || len(ret.Args) != 1 {
			return true
		}
		mentionsMap := false
		ast.Inspect(ifs.Cond, func(k ast.Node) bool {
			if sel, isSel := k.(*ast.SelectorExpr); isSel && sel.Sel.Name == "Map" {
				mentionsMap = true
			}
			return true
		})
		if saved[core.ObjOf(info, ret.Args[0])] && mentionsMap {
			chain = true
		}
		if c, isCall := core.Unparen(ret.Args[0]).(*ast.CallExpr); isCall && strings.HasSuffix(core.CalleeName(info, c), "PtrTo") {
			direct = true
		}
		return true
	})
	rc.Check(direct, key+"/one-pointer", fd.Pos(), "a root *map is compiled as a pointer code over the map (ptrCode(PtrTo(typ)))")
	rc.Check(chain, key, fd.Pos(), "when the type that remains after the stripped pointer is a pointer chain ending in a map, the original type goes through ptrCode, one pointer code level per pointer: without it json.Marshal(&pm) for pm a *map[string]int hands the map opcodes the address of a pointer variable (fatal out of memory in the runtime's map iteration)")
}

// ---- C08.R17 / C08.R18 pointer-shaped structs: recursive programs and the root value ----

// C08.R17: OpRecursive enters the linked program with the address of the struct it refers to. The program is a copy of
// the one compiled for the struct type, and for a struct that is stored directly in an interface word (a single
// pointer-shaped field) that program was compiled for the root position, where the head opcode receives the field's
// value instead of the struct's address. The head of every linked copy therefore has to carry IndirectFlags.
func c08r17(rc *core.RC) {
	p := rc.P
	fd := p.Func("encoder", "Compiler.linkRecursiveCode")
	key := "encoder.(*Compiler).linkRecursiveCode/linked-program-is-entered-by-address"
	if fd == nil || fd.Body == nil {
		rc.Unknown(key, token.NoPos, "linkRecursiveCode not found")
		return
	}
	rc.Touch("encoder.(*Compiler).linkRecursiveCode")
	info := p.Info(fd)
	// the variable that receives copyOpcode(...) and is stored into <jmp>.Code
	var copyVar types.Object
	ast.Inspect(fd.Body, func(m ast.Node) bool {
		as, ok := m.(*ast.AssignStmt)
		if !ok || len(as.Lhs) != 1 || len(as.Rhs) != 1 {
			return true
		}
		if c, isCall := core.Unparen(as.Rhs[0]).(*ast.CallExpr); isCall && strings.HasSuffix(core.CalleeName(info, c), "copyOpcode") {
			copyVar = core.ObjOf(info, as.Lhs[0])
		}
		return true
	})
	if copyVar == nil {
		rc.Unknown(key, fd.Pos(), "no copy of the struct's program (copyOpcode) found")
		return
	}
	flagged := false
	ast.Inspect(fd.Body, func(m ast.Node) bool {
		as, ok := m.(*ast.AssignStmt)
		if !ok || as.Tok != token.OR_ASSIGN || len(as.Lhs) != 1 {
			return true
		}
		sel, isSel := core.Unparen(as.Lhs[0]).(*ast.SelectorExpr)
		if !isSel || sel.Sel.Name != "Flags" || core.ObjOf(info, sel.X) != copyVar {
			return true
		}
		ast.Inspect(as.Rhs[0], func(k ast.Node) bool {
			if id, isIdent := k.(*ast.Ident); isIdent && id.Name == "IndirectFlags" {
				flagged = true
			}
			return true
		})
		return true
	})
	rc.Check(flagged, key, fd.Pos(), "the head of the program copied for a recursive reference is given IndirectFlags: OpRecursive hands it the address of the struct. Without it a pointer-shaped recursive struct passed by value (type D struct{ Sub map[string]D }, type D struct{ Sub *D }) runs its nested values through a head opcode that takes the address for the field's value: fatal out of memory, or output that is not JSON")
}

// C08.R18: in the root position a pointer-shaped struct is stored directly in the interface word, and the generic
// struct head opcode hands the value opcode that word: the pointer itself, not the address of the field. Value
// opcodes with a fused struct head (numbers, strings, slices, maps, structs ...) test IndirectFlags themselves; the two
// that have none (OpInterfacePtr, OpRecursivePtr) have to follow one pointer less, which codeToOpcode arranges after
// the recursive references were linked (their copies are entered by address, C08.R17).
func c08r18(rc *core.RC) {
	p := rc.P
	fd := p.Func("encoder", "Compiler.codeToOpcode")
	key := "encoder.(*Compiler).codeToOpcode/direct-root-struct"
	if fd == nil || fd.Body == nil {
		rc.Unknown(key, token.NoPos, "codeToOpcode not found")
		return
	}
	rc.Touch("encoder.(*Compiler).codeToOpcode")
	info := p.Info(fd)
	var link, conv *ast.CallExpr
	var convUnderDirect bool
	var convFn *types.Func
	ast.Inspect(fd.Body, func(m ast.Node) bool {
		switch x := m.(type) {
		case *ast.CallExpr:
			if strings.HasSuffix(core.CalleeName(info, x), "linkRecursiveCode") {
				link = x
			}
		case *ast.IfStmt:
			direct := false
			ast.Inspect(x.Cond, func(k ast.Node) bool {
				if u, isNot := k.(*ast.UnaryExpr); isNot && u.Op == token.NOT {
					if sel, isSel := core.Unparen(u.X).(*ast.SelectorExpr); isSel && sel.Sel.Name == "isIndirect" {
						direct = true
					}
				}
				return true
			})
			if direct {
				for _, st := range x.Body.List {
					es, isExpr := st.(*ast.ExprStmt)
					if !isExpr {
						continue
					}
					if c, isCall := es.X.(*ast.CallExpr); isCall {
						if f := core.Callee(info, c); f != nil && p.DeclOf(f) != nil && f.Pkg() != nil && strings.HasSuffix(f.Pkg().Path(), "internal/encoder") {
							conv, convFn, convUnderDirect = c, f, true
						}
					}
				}
			}
		}
		return true
	})
	if conv == nil || !convUnderDirect {
		rc.Bad(key, fd.Pos(), "codeToOpcode does nothing for a root struct that is not indirect: the interface and recursive value opcodes of a struct whose only field is such a pointer follow the pointer once too often (json.Marshal(struct{ P *interface{} }{&v}) panics; type D struct{ Sub *D } by value loses a level)")
		return
	}
	rc.Check(link != nil && link.Pos() < conv.Pos(), key+"/after-linking", conv.Pos(), "the conversion of the root program happens after linkRecursiveCode copied it (the copies keep the by-address form)")
	cd := p.DeclOf(convFn)
	handled := map[string]bool{}
	if cd != nil && cd.Body != nil {
		ast.Inspect(cd.Body, func(m ast.Node) bool {
			cc, ok := m.(*ast.CaseClause)
			if !ok {
				return true
			}
			dec := false
			for _, st := range cc.Body {
				if ids, isInc := st.(*ast.IncDecStmt); isInc && ids.Tok == token.DEC {
					if sel, isSel := core.Unparen(ids.X).(*ast.SelectorExpr); isSel && sel.Sel.Name == "PtrNum" {
						dec = true
					}
				}
			}
			if dec {
				for _, l := range cc.List {
					handled[core.Src(p.Fset, l)] = true
				}
			}
			return true
		})
	}
	for _, op := range []string{"OpInterfacePtr", "OpRecursivePtr"} {
		rc.Check(handled[op], key+"/"+op, conv.Pos(), "%s follows one pointer less below the generic head of a direct root struct (%s has a case for it that lowers PtrNum)", op, convFn.Name())
	}
}

// ---- C08.R19 a word view of a string stays inside the string ----

// evalWithLen folds an integer expression in which len(<obj>) stands for L.
func evalWithLen(info *types.Info, e ast.Expr, obj types.Object, L int64) (int64, bool) {
	e = core.Unparen(e)
	if v, ok := core.ConstInt(info, e); ok {
		return v, true
	}
	switch x := e.(type) {
	case *ast.CallExpr:
		if core.IsBuiltin(info, x, "len") && len(x.Args) == 1 && core.ObjOf(info, x.Args[0]) == obj {
			return L, true
		}
		if tv, ok := info.Types[x.Fun]; ok && tv.IsType() && len(x.Args) == 1 { // conversion
			return evalWithLen(info, x.Args[0], obj, L)
		}
	case *ast.BinaryExpr:
		a, ok1 := evalWithLen(info, x.X, obj, L)
		b, ok2 := evalWithLen(info, x.Y, obj, L)
		if !ok1 || !ok2 {
			return 0, false
		}
		switch x.Op {
		case token.ADD:
			return a + b, true
		case token.SUB:
			return a - b, true
		case token.MUL:
			return a * b, true
		case token.QUO:
			if b == 0 {
				return 0, false
			}
			return a / b, true
		case token.REM:
			if b == 0 {
				return 0, false
			}
			return a % b, true
		case token.SHR:
			return a >> uint(b), true
		case token.SHL:
			return a << uint(b), true
		case token.AND:
			return a & b, true
		case token.AND_NOT:
			return a &^ b, true
		}
	}
	return 0, false
}

// The string appenders scan eight bytes at a time through a []uint64 laid over the bytes of the string. The view
// must not reach past the string: for every length L its Len and Cap, times the eight bytes of a word, are at most L
// (folded for L = 0 … 300). A view that rounds up reads up to seven bytes that do not belong to the value; at the end
// of a mapping that is a fault.
func c08r19(rc *core.RC) {
	p := rc.P
	n := 0
	for _, short := range []string{"encoder", "decoder", "runtime", "json"} {
		for _, fd := range p.Funcs(short) {
			if fd.Body == nil {
				continue
			}
			info := p.Info(fd)
			ast.Inspect(fd.Body, func(m ast.Node) bool {
				cl, ok := m.(*ast.CompositeLit)
				if !ok {
					return true
				}
				tv, has := info.Types[cl]
				if !has || tv.Type.String() != "reflect.SliceHeader" {
					return true
				}
				// the string whose bytes the view is laid over
				var src types.Object
				var lenE, capE ast.Expr
				for _, el := range cl.Elts {
					kv, isKV := el.(*ast.KeyValueExpr)
					if !isKV {
						continue
					}
					switch kv.Key.(*ast.Ident).Name {
					case "Data":
						ast.Inspect(kv.Value, func(k ast.Node) bool {
							if u, isAddr := k.(*ast.UnaryExpr); isAddr && u.Op == token.AND {
								if o := core.ObjOf(info, u.X); o != nil {
									if b, isBasic := o.Type().Underlying().(*types.Basic); isBasic && b.Kind() == types.String {
										src = o
									}
								}
							}
							return true
						})
					case "Len":
						lenE = kv.Value
					case "Cap":
						capE = kv.Value
					}
				}
				if src == nil || lenE == nil || capE == nil {
					return true
				}
				// the element size of the slice type the header is cast to: the enclosing conversion *(*[]T)(…)
				elemSize := int64(0)
				for _, anc := range core.PathTo(fd.Body, cl) {
					if c, isCall := anc.(*ast.CallExpr); isCall {
						if t, isT := info.Types[c.Fun]; isT && t.IsType() {
							if pt, isPtr := t.Type.Underlying().(*types.Pointer); isPtr {
								if sl, isSl := pt.Elem().Underlying().(*types.Slice); isSl {
									elemSize = p.PkgOfDecl(fd).TypesSizes.Sizeof(sl.Elem())
								}
							}
						}
					}
				}
				n++
				fn := p.FuncName(fd)
				rc.Touch(fn)
				key := fn + "/word-view-inside-the-string"
				if elemSize == 0 {
					rc.Unknown(key, cl.Pos(), "the element type of the view was not found")
					return true
				}
				for L := int64(0); L <= 300; L++ {
					for _, e := range []ast.Expr{lenE, capE} {
						v, ok := evalWithLen(info, e, src, L)
						if !ok {
							rc.Unknown(key, e.Pos(), "the length %s of the view could not be folded", core.Src(p.Fset, e))
							return true
						}
						if v < 0 || v*elemSize > L {
							rc.Bad(key, e.Pos(), "for a string of %d bytes the view holds %d words of %d bytes (%s): it reaches %d bytes past the end of the string, memory that does not belong to the value (a fault when the string ends at the end of a mapping)", L, v, elemSize, core.Src(p.Fset, e), v*elemSize-L)
							return true
						}
					}
				}
				rc.OK(key, cl.Pos(), "Len %s and Cap %s times %d bytes never exceed the length of the string (folded for lengths 0 to 300)", core.Src(p.Fset, lenE), core.Src(p.Fset, capE), elemSize)
				return true
			})
		}
	}
	if n < 1 {
		rc.Unknown("module/word-views", token.NoPos, "no reflect.SliceHeader laid over a string found (confirmed: encoder.stringToUint64Slice)")
	}
}

// ---- C08.R20 the frame stack is measured by its length ----

// The interpreters grow ctx.Ptrs with `append(ctx.Ptrs, make([]uintptr, newLen-len)...)` and copy frames by length:
// the invariant they rely on is that len(Ptrs) covers every live slot. Every place that decides whether the stack is
// large enough therefore has to measure len(Ptrs); a test of cap(Ptrs) lets a frame live beyond the length, where
// the next growth zeroes it (in place or by not copying it).
func c08r20(rc *core.RC) {
	p := rc.P
	n := 0
	for _, short := range []string{"encoder", "vm", "vm_indent", "vm_color", "vm_color_indent", "json"} {
		for _, fd := range p.Funcs(short) {
			if fd.Body == nil {
				continue
			}
			info := p.Info(fd)
			fn := p.FuncName(fd)
			k := 0
			ast.Inspect(fd.Body, func(x ast.Node) bool {
				call, ok := x.(*ast.CallExpr)
				if !ok || len(call.Args) != 1 || !(core.IsBuiltin(info, call, "len") || core.IsBuiltin(info, call, "cap")) {
					return true
				}
				sel, ok := core.Unparen(call.Args[0]).(*ast.SelectorExpr)
				if !ok || sel.Sel.Name != "Ptrs" {
					return true
				}
				v, ok := info.Uses[sel.Sel].(*types.Var)
				if !ok || !v.IsField() || v.Pkg() == nil || v.Pkg().Name() != "encoder" {
					return true
				}
				if path := core.PathTo(fd.Body, call); len(path) >= 2 {
					if _, reslice := path[len(path)-2].(*ast.SliceExpr); reslice {
						return true // Ptrs[:cap(Ptrs)] extends the length itself: not a size test
					}
				}
				n++
				k++
				rc.Touch(fn)
				key := fmt.Sprintf("%s/size-of-Ptrs#%d measured-by-length", fn, k)
				rc.Check(core.IsBuiltin(info, call, "len"), key, call.Pos(), "the size of the frame stack is taken with len (%s): the growth in the interpreters preserves only the first len(Ptrs) slots, so a stack accepted by its capacity keeps live frames where the next append zeroes them", core.Src(p.Fset, call))
				return true
			})
		}
	}
	if n < 9 {
		rc.Unknown("encoder/frame-stack-size-tests", token.NoPos, "found %d measurements of RuntimeContext.Ptrs (confirmed: 9, Init and two growth sites per interpreter)", n)
	}
}

// ---- C08.R21 a value that is the interface word itself is boxed before an addressing program runs ----

// The program of an array addresses memory (element i is at p + i*size). A one-element array of a pointer-shaped
// type, and a struct whose only word is such an array, is not in memory when it arrives in an interface: it is the
// interface's data word. Started with that word, the array program reads the element's pointee as the element
// (json.Marshal([1]*int{&x}) dereferenced the integer). Every place that starts a program with an interface word
// therefore consults OpcodeSet.BoxedValue and hands over the address of a copy of the word:
//   - the three root entry functions of package json take the start pointer from rootPointer,
//   - rootPointer returns the bare word only under !BoxedValue,
//   - the OpInterface handler of each interpreter tests BoxedValue of the dynamic type's code set,
//   - isBoxedValue says yes for an ArrayCode of array kind.
func c08r21(rc *core.RC) {
	p := rc.P
	readsBoxed := func(info *types.Info, n ast.Node) bool {
		found := false
		ast.Inspect(n, func(m ast.Node) bool {
			if sel, ok := m.(*ast.SelectorExpr); ok && sel.Sel.Name == "BoxedValue" {
				if f := core.FieldOf(info, sel); f != nil {
					found = true
				}
			}
			return true
		})
		return found
	}
	// (a) root entries: the first argument of RuntimeContext.Init comes from rootPointer
	n := 0
	for _, fd := range p.Funcs("json") {
		if fd.Body == nil {
			continue
		}
		info := p.Info(fd)
		fn := p.FuncName(fd)
		ast.Inspect(fd.Body, func(m ast.Node) bool {
			call, ok := m.(*ast.CallExpr)
			if !ok || core.CalleeName(info, call) != "encoder.RuntimeContext.Init" || len(call.Args) != 2 {
				return true
			}
			n++
			rc.Touch(fn)
			key := fn + "/root-pointer boxed-when-the-program-addresses-memory"
			arg := core.Unparen(call.Args[0])
			ok2 := false
			why := core.Src(p.Fset, arg)
			if id, isID := arg.(*ast.Ident); isID {
				obj := core.ObjOf(info, id)
				var boxObj types.Object
				ast.Inspect(fd.Body, func(k ast.Node) bool {
					as, isAs := k.(*ast.AssignStmt)
					if !isAs || len(as.Lhs) < 1 || len(as.Rhs) != 1 || core.ObjOf(info, as.Lhs[0]) != obj {
						return true
					}
					why = core.Src(p.Fset, as.Rhs[0])
					if c, isCall := core.Unparen(as.Rhs[0]).(*ast.CallExpr); isCall && core.CalleeName(info, c) == "json.rootPointer" {
						ok2 = true
						if len(as.Lhs) == 2 {
							boxObj = core.ObjOf(info, as.Lhs[1])
						}
					}
					return true
				})
				// the copy of the word is known to the interpreter as a uintptr only: it is put into KeepRefs, and after Init,
				// which empties KeepRefs
				if ok2 {
					kept := false
					ast.Inspect(fd.Body, func(k ast.Node) bool {
						as, isAs := k.(*ast.AssignStmt)
						if !isAs || len(as.Lhs) != 1 || len(as.Rhs) != 1 || as.Pos() < call.End() {
							return true
						}
						if f := core.FieldOf(info, as.Lhs[0]); f == nil || f.Name() != "KeepRefs" {
							return true
						}
						if c, isCall := core.Unparen(as.Rhs[0]).(*ast.CallExpr); isCall && core.IsBuiltin(info, c, "append") {
							for _, a := range c.Args[1:] {
								if boxObj != nil && core.ObjOf(info, a) == boxObj {
									kept = true
								}
							}
						}
						return true
					})
					rc.Check(kept, fn+"/root-pointer copy-kept-alive-after-Init", call.Pos(), "the copy of the interface word that rootPointer returns is appended to ctx.KeepRefs behind the call of Init (Init empties KeepRefs): the interpreter holds it as a uintptr only, so nothing else keeps it from the garbage collector")
				}
			}
			rc.Check(ok2, key, call.Pos(), "the program of the root value is started with the result of rootPointer, which boxes a value that is the interface word itself (here: %s); started with the bare word, the program of a one-element array of pointers reads the pointee as the element", why)
			return true
		})
	}
	if n < 3 {
		rc.Unknown("json/root-entries", token.NoPos, "found %d calls of RuntimeContext.Init in package json (confirmed: encode, encodeNoEscape, encodeIndent)", n)
	}
	// (b) rootPointer
	if fd := p.Func("json", "rootPointer"); fd == nil || fd.Body == nil {
		rc.Unknown("json.rootPointer", token.NoPos, "function not found")
	} else {
		info := p.Info(fd)
		rc.Touch("json.rootPointer")
		key := "json.rootPointer/bare-word-only-when-not-boxed"
		good, bare := true, 0
		ast.Inspect(fd.Body, func(m ast.Node) bool {
			ret, ok := m.(*ast.ReturnStmt)
			if !ok || len(ret.Results) < 1 {
				return true
			}
			// a return of uintptr(<parameter>) is the bare word
			c, isConv := core.Unparen(ret.Results[0]).(*ast.CallExpr)
			if !isConv || len(c.Args) != 1 {
				return true
			}
			if _, isParam := core.ObjOf(info, c.Args[0]).(*types.Var); !isParam {
				return true
			}
			isPar := false
			for _, f := range fd.Type.Params.List {
				for _, nm := range f.Names {
					if info.Defs[nm] == core.ObjOf(info, c.Args[0]) {
						isPar = true
					}
				}
			}
			if !isPar {
				return true
			}
			bare++
			under := false
			for _, cn := range condChainNodes(fd, ret) {
				if !cn.pos && readsBoxed(info, cn.cond) {
					under = true
				}
			}
			if !under {
				good = false
			}
			return true
		})
		rc.Check(good && bare >= 1, key, fd.Pos(), "rootPointer returns the interface word itself only on the branch where BoxedValue is false (%d such returns)", bare)
	}
	// (c) the interface handlers
	for _, vm := range []string{"vm", "vm_indent", "vm_color", "vm_color_indent"} {
		fd := p.Func(vm, "Run")
		if fd == nil || fd.Body == nil {
			rc.Unknown(vm+".Run", token.NoPos, "interpreter not found")
			continue
		}
		info := p.Info(fd)
		key := vm + ".Run/case OpInterface/dynamic-value boxed-when-the-program-addresses-memory"
		var clause *ast.CaseClause
		ast.Inspect(fd.Body, func(m ast.Node) bool {
			cc, ok := m.(*ast.CaseClause)
			if !ok {
				return true
			}
			for _, l := range cc.List {
				if sel, ok := core.Unparen(l).(*ast.SelectorExpr); ok && sel.Sel.Name == "OpInterface" {
					clause = cc
				}
			}
			return true
		})
		if clause == nil {
			rc.Unknown(key, fd.Pos(), "OpInterface handler not found")
			continue
		}
		rc.Touch(vm + ".Run")
		// an if statement that tests BoxedValue and assigns the pointer that is stored afterwards
		tested := false
		for _, st := range clause.Body {
			ifs, ok := st.(*ast.IfStmt)
			if !ok {
				continue
			}
			// the flag itself, not a conjunction that may weaken it
			if sel, isSel := core.Unparen(ifs.Cond).(*ast.SelectorExpr); !isSel || sel.Sel.Name != "BoxedValue" || core.FieldOf(info, sel) == nil {
				continue
			}
			ast.Inspect(ifs.Body, func(k ast.Node) bool {
				if as, isAs := k.(*ast.AssignStmt); isAs && as.Tok == token.ASSIGN && len(as.Lhs) == 1 {
					if t := info.TypeOf(as.Lhs[0]); t != nil && t.String() == "unsafe.Pointer" {
						tested = true
					}
				}
				return true
			})
		}
		rc.Check(tested, key, clause.Pos(), "the handler tests BoxedValue of the code set compiled for the dynamic type and replaces the data word by the address of a copy of it before the program is entered")
	}
	// (d) isBoxedValue
	if fd := p.Func("encoder", "isBoxedValue"); fd == nil || fd.Body == nil {
		rc.Unknown("encoder.isBoxedValue", token.NoPos, "function not found")
	} else {
		info := p.Info(fd)
		rc.Touch("encoder.isBoxedValue")
		key := "encoder.isBoxedValue/array-programs-are-boxed"
		good := false
		ast.Inspect(fd.Body, func(m ast.Node) bool {
			cc, ok := m.(*ast.CaseClause)
			if !ok {
				return true
			}
			isArr := false
			for _, l := range cc.List {
				if strings.Contains(core.Src(p.Fset, l), "ArrayCode") {
					isArr = true
				}
			}
			if !isArr {
				return true
			}
			for _, st := range cc.Body {
				if ret, ok := st.(*ast.ReturnStmt); ok && len(ret.Results) == 1 {
					if v := core.ConstValue(info, ret.Results[0]); v != nil {
						good = v.String() == "true"
					} else {
						good = strings.Contains(core.Src(p.Fset, ret.Results[0]), "reflect.Array")
					}
				}
			}
			return true
		})
		rc.Check(good, key, fd.Pos(), "isBoxedValue answers yes for the program of a pointer-shaped array (an ArrayCode whose type is of array kind)")
	}
}

// ---- C08.R22 a re-slice beyond the length is guarded by the capacity that is left ----

// AppendByteSlice encodes base64 text in place: it re-slices the output buffer beyond its length into the spare
// capacity. x[lo:hi] with hi > len(x) is in range only when hi <= cap(x). The rule evaluates hi, the conditions on
// the way to the re-slice, and a preceding "grow if too small" statement as linear forms over len, cap and the
// locals (all of them lengths and positions, hence not negative) and requires that cap(x) - hi >= 0 follows from
// one of them. A guard on the capacity of the whole buffer says nothing about the room behind what is written
// (a member that straddles the end of the pooled buffer panics); room for the text is not room for the text and
// its closing quote (a text that ends exactly at the capacity panics).
func c08r22(rc *core.RC) {
	p := rc.P
	n := 0
	for _, fd := range p.Funcs("encoder") {
		if fd.Body == nil {
			continue
		}
		info := p.Info(fd)
		fn := p.FuncName(fd)
		// only functions that reason about a capacity
		mentionsCap := false
		ast.Inspect(fd.Body, func(m ast.Node) bool {
			if c, ok := m.(*ast.CallExpr); ok && core.IsBuiltin(info, c, "cap") {
				if t := info.TypeOf(c.Args[0]); t != nil && t.String() == "[]byte" {
					mentionsCap = true
				}
			}
			return true
		})
		if !mentionsCap {
			continue
		}
		le := &core.LinearEval{Info: info, Pkg: p.Pkg("encoder"), Body: fd.Body}
		// a >= 0 fact from a comparison
		factOf := func(cond ast.Expr, pos bool) (core.Linear, bool) {
			be, ok := core.Unparen(cond).(*ast.BinaryExpr)
			if !ok {
				return core.Linear{}, false
			}
			l, r := le.Eval(be.X), le.Eval(be.Y)
			if !l.OK || !r.OK {
				return core.Linear{}, false
			}
			op := be.Op
			if !pos {
				switch op {
				case token.GTR:
					op = token.LEQ
				case token.GEQ:
					op = token.LSS
				case token.LSS:
					op = token.GEQ
				case token.LEQ:
					op = token.GTR
				default:
					return core.Linear{}, false
				}
			}
			switch op {
			case token.GTR:
				return l.Sub(r).Sub(core.LinConst(1)), true
			case token.GEQ:
				return l.Sub(r), true
			case token.LSS:
				return r.Sub(l).Sub(core.LinConst(1)), true
			case token.LEQ:
				return r.Sub(l), true
			}
			return core.Linear{}, false
		}
		nonneg := func(l core.Linear) bool {
			if !l.OK || l.Const < 0 {
				return false
			}
			for _, c := range l.Terms {
				if c < 0 {
					return false
				}
			}
			return true
		}
		k := 0
		ast.Inspect(fd.Body, func(m ast.Node) bool {
			se, ok := m.(*ast.SliceExpr)
			if !ok || se.High == nil {
				return true
			}
			if t := info.TypeOf(se.X); t == nil || t.String() != "[]byte" {
				return true
			}
			xid, isID := core.Unparen(se.X).(*ast.Ident)
			if !isID {
				return true
			}
			hi := le.Eval(se.High)
			if !hi.OK {
				return true
			}
			capAtom := "cap(" + xid.Name + ")"
			lenAtom := "len(" + xid.Name + ")"
			// within the length for certain: hi = len(x) - c, or a constant
			within := true
			for a, c := range hi.Terms {
				if c != 0 && !(a == lenAtom && c == 1) {
					within = false
				}
			}
			if within && (hi.Terms[lenAtom] == 0 || hi.Const <= 0) {
				return true
			}
			// only re-slices whose bound involves what the function measures against the capacity
			k++
			n++
			rc.Touch(fn)
			key := fmt.Sprintf("%s/extension#%d guarded-by-the-capacity-left", fn, k)
			need := core.Linear{OK: true, Terms: map[string]int64{capAtom: 1}}.Sub(hi)
			var facts []core.Linear
			var seen []string
			for _, c := range condChainNodes(fd, se) {
				for _, cj := range conjuncts(c.cond) {
					if !c.pos {
						cj = c.cond
					}
					if f, ok := factOf(cj, c.pos); ok {
						facts = append(facts, f)
						seen = append(seen, core.Src(p.Fset, cj))
					}
					if !c.pos {
						break
					}
				}
			}
			// grow-if-too-small in front of the re-slice: `if G > cap(x) { x = make(T, L, C) }` leaves cap(x) >= G when C >= G
			path := core.PathTo(fd.Body, se)
			for i := len(path) - 1; i >= 1; i-- {
				blk, isBlk := path[i-1].(*ast.BlockStmt)
				if !isBlk {
					continue
				}
				for _, st := range blk.List {
					if ast.Node(st) == path[i] {
						break
					}
					ifs, isIf := st.(*ast.IfStmt)
					if !isIf || ifs.Else != nil {
						continue
					}
					f, ok := factOf(ifs.Cond, false) // what holds when the branch is not taken
					if !ok || f.Terms[capAtom] != 1 {
						continue
					}
					// in the branch x is replaced by a buffer of capacity C
					var capExpr ast.Expr
					ast.Inspect(ifs.Body, func(q ast.Node) bool {
						if c, isCall := q.(*ast.CallExpr); isCall && core.IsBuiltin(info, c, "make") && len(c.Args) == 3 {
							capExpr = c.Args[2]
						}
						return true
					})
					if capExpr == nil {
						continue
					}
					// G = cap(x) - f; taken branch: cap becomes C, so the same fact holds when C - G >= 0
					g := core.Linear{OK: true, Terms: map[string]int64{capAtom: 1}}.Sub(f)
					if nonneg(le.Eval(capExpr).Sub(g)) {
						facts = append(facts, f)
						seen = append(seen, "grow unless "+core.Src(p.Fset, ifs.Cond))
					}
				}
			}
			proved := false
			for _, f := range facts {
				if nonneg(need.Sub(f)) {
					proved = true
				}
			}
			rc.Check(proved, key, se.Pos(), "the re-slice %s reaches beyond len(%s): cap(%s) - (%s) >= 0 follows from a condition on the way or from a grow-if-too-small statement in front of it (found: %s)", core.Src(p.Fset, se), xid.Name, xid.Name, hi, strings.Join(seen, "; "))
			return true
		})
	}
	if n < 1 {
		rc.Unknown("encoder/extensions", token.NoPos, "no re-slice beyond the length found in the functions of the encoder that measure a capacity (confirmed: AppendByteSlice)")
	}
}

// ---- C08.R23 reflect.Value.IsNil only for the kinds that have a nil ----

// reflect.Value.IsNil panics for every kind but Chan, Func, Interface, Map, Ptr, Slice and UnsafePointer. Where
// the module calls IsNil inside a switch on the value's kind, the clause that calls it must be labelled with those
// kinds only: an Array merged into the Slice/Map clause makes Marshal panic on every omitempty member that is an
// array with a marshal method ([16]byte UUIDs).
func c08r23(rc *core.RC) {
	p := rc.P
	nilable := map[string]bool{"Chan": true, "Func": true, "Interface": true, "Map": true, "Ptr": true, "Pointer": true, "Slice": true, "UnsafePointer": true}
	n := 0
	for _, pk := range p.LibPkgs() {
		for _, f := range pk.Syntax {
			for _, d := range f.Decls {
				fd, ok := d.(*ast.FuncDecl)
				if !ok || fd.Body == nil {
					continue
				}
				info := pk.TypesInfo
				fn := p.FuncName(fd)
				k := 0
				ast.Inspect(fd.Body, func(m ast.Node) bool {
					sw, ok := m.(*ast.SwitchStmt)
					if !ok || sw.Tag == nil {
						return true
					}
					tagCall, ok := core.Unparen(sw.Tag).(*ast.CallExpr)
					if !ok {
						return true
					}
					tagSel, ok := core.Unparen(tagCall.Fun).(*ast.SelectorExpr)
					if !ok || tagSel.Sel.Name != "Kind" {
						return true
					}
					recv := core.ObjOf(info, tagSel.X)
					if t := info.TypeOf(tagSel.X); t == nil || t.String() != "reflect.Value" || recv == nil {
						return true
					}
					for _, c := range sw.Body.List {
						cc := c.(*ast.CaseClause)
						if len(cc.List) == 0 {
							continue
						}
						calls := false
						for _, st := range cc.Body {
							ast.Inspect(st, func(x ast.Node) bool {
								if inner, isSw := x.(*ast.SwitchStmt); isSw && inner != sw {
									return false
								}
								call, isCall := x.(*ast.CallExpr)
								if !isCall {
									return true
								}
								if sel, isSel := core.Unparen(call.Fun).(*ast.SelectorExpr); isSel && sel.Sel.Name == "IsNil" && core.ObjOf(info, sel.X) == recv {
									calls = true
								}
								return true
							})
						}
						if !calls {
							continue
						}
						k++
						n++
						rc.Touch(fn)
						var bad []string
						for _, l := range cc.List {
							if sel, isSel := core.Unparen(l).(*ast.SelectorExpr); isSel {
								if !nilable[sel.Sel.Name] {
									bad = append(bad, sel.Sel.Name)
								}
							} else {
								bad = append(bad, core.Src(p.Fset, l))
							}
						}
						key := fmt.Sprintf("%s/IsNil-clause#%d nilable-kinds-only", fn, k)
						rc.Check(len(bad) == 0, key, cc.Pos(), "the clause that calls IsNil on the switched value is labelled with kinds that have a nil%s", map[bool]string{true: "", false: "; it also carries " + strings.Join(bad, ", ") + ", for which reflect.Value.IsNil panics"}[len(bad) == 0])
					}
					return true
				})
			}
		}
	}
	if n < 2 {
		rc.Unknown("module/IsNil-in-kind-switch", token.NoPos, "found %d clauses of a kind switch that call IsNil on the switched value", n)
	}
}

// ---- C08.R24 the pointer depth of a chain and of the first member do not share one field ----

// A struct head opcode that is merged with its first member (OpStructHeadIntPtr, …StringPtr, …) carries in PtrNum
// the pointer depth of that member. PtrCode.ToOpcode converts the head into its pointer variant and stores the depth
// of the pointer chain in the same field. The pointer-head handlers then follow code.PtrNum pointers twice: to reach
// the struct and to reach the member's value. That is right only when the two depths are equal. For **struct{ P *int
// … } the member is followed once too often (the integer is dereferenced: panic); for *struct{ P **int … } once too
// rarely (the inner pointer is printed). The overwrite has to be guarded (a separate dereference step, or no merge
// of the first member) whenever the head already carries a member depth.
func c08r24(rc *core.RC) {
	p := rc.P
	n := 0
	for _, name := range []string{"PtrCode.ToOpcode", "PtrCode.ToAnonymousOpcode"} {
		fd := p.Func("encoder", name)
		if fd == nil || fd.Body == nil {
			rc.Unknown("encoder."+name, token.NoPos, "function not found")
			continue
		}
		info := p.Info(fd)
		fn := p.FuncName(fd)
		rc.Touch(fn)
		ast.Inspect(fd.Body, func(m ast.Node) bool {
			as, ok := m.(*ast.AssignStmt)
			if !ok || len(as.Lhs) != 1 || len(as.Rhs) != 1 {
				return true
			}
			f := core.FieldOf(info, as.Lhs[0])
			if f == nil || f.Name() != "PtrNum" {
				return true
			}
			n++
			key := fn + "/chain-depth-stored-in-PtrNum guarded-against-a-member-depth"
			guarded := false
			for _, c := range condChainNodes(fd, as) {
				ast.Inspect(c.cond, func(k ast.Node) bool {
					if e, isE := k.(ast.Expr); isE {
						if g := core.FieldOf(info, e); g != nil && g.Name() == "PtrNum" {
							guarded = true
						}
					}
					return true
				})
			}
			rc.Check(guarded, key, as.Pos(), "the depth of the pointer chain is stored in the head's PtrNum only under a test of the depth the head already carries for its first member: the pointer-head handlers follow code.PtrNum pointers both to the struct and to the member, so unequal depths make them dereference the member once too often or too rarely")
			return true
		})
	}
	if n < 2 {
		rc.Unknown("encoder/PtrCode-depth", token.NoPos, "found %d stores of the chain depth into PtrNum (confirmed: 2)", n)
	}
}

// ---- C08.R25 only the heads of embedded structs are stepped over when member chains are linked ----

// When the compiler links the member chain of a struct (NextField, the link an omitted member follows) it has to find
// the first real member behind the head operations of embedded structs. Those heads carry AnonymousKeyFlags. A first
// member that holds a struct under its own name has the same operation (OpStructHead) and no such flag: stepping over
// it as well leads into the inner struct, the chain of the inner struct is linked instead, and the omitted member of
// the outer one is left with a nil link (json.Marshal(struct{ E }{}) with E struct{ In Inner; B []int `omitempty` }
// dereferenced it). Obligation: every loop of code.go that advances an opcode variable along Next while its operation
// is OpStructHead/OpStructField also tests AnonymousKeyFlags in its condition.
func c08r25(rc *core.RC) {
	p := rc.P
	pk := p.Pkg("encoder")
	if pk == nil {
		rc.Unknown("encoder", token.NoPos, "package not found")
		return
	}
	info := pk.TypesInfo
	n := 0
	for _, fd := range p.Funcs("encoder") {
		if fd.Body == nil {
			continue
		}
		name := p.FuncName(fd)
		k := 0
		ast.Inspect(fd.Body, func(m ast.Node) bool {
			loop, ok := m.(*ast.ForStmt)
			if !ok || loop.Cond == nil || loop.Init != nil || loop.Post != nil {
				return true
			}
			// the condition compares x.Op with OpStructHead or OpStructField (itself, or in the one-line helper it calls)
			cmpHead, flag := false, false
			var cond ast.Node = loop.Cond
			if call, isCall := core.Unparen(loop.Cond).(*ast.CallExpr); isCall {
				if f := core.Callee(info, call); f != nil && f.Pkg() == pk.Types {
					if hd := p.DeclOf(f); hd != nil && hd.Body != nil && len(hd.Body.List) == 1 {
						if r, isRet := hd.Body.List[0].(*ast.ReturnStmt); isRet && len(r.Results) == 1 {
							cond = r.Results[0]
						}
					}
				}
			}
			ast.Inspect(cond, func(c ast.Node) bool {
				switch x := c.(type) {
				case *ast.BinaryExpr:
					if x.Op == token.EQL {
						if f := core.FieldOf(info, x.X); f != nil && f.Name() == "Op" {
							if id, ok := core.Unparen(x.Y).(*ast.Ident); ok && (id.Name == "OpStructHead" || id.Name == "OpStructField") {
								cmpHead = true
							}
						}
					}
				case *ast.Ident:
					if x.Name == "AnonymousKeyFlags" {
						if _, isConst := core.ObjOf(info, x).(*types.Const); isConst {
							flag = true
						}
					}
				}
				return true
			})
			if !cmpHead {
				return true
			}
			// the body advances along Next
			adv := false
			for _, st := range loop.Body.List {
				if as, ok := st.(*ast.AssignStmt); ok && len(as.Lhs) == 1 && len(as.Rhs) == 1 {
					if f := core.FieldOf(info, as.Rhs[0]); f != nil && f.Name() == "Next" {
						adv = true
					}
				}
			}
			if !adv {
				return true
			}
			k++
			n++
			rc.Touch(name)
			rc.Check(flag, fmt.Sprintf("%s/head-skipping-loop#%d embedded-heads-only", name, k), loop.Pos(), "the loop steps over head operations to reach the first member of an embedded struct: its condition has to test AnonymousKeyFlags, or it also steps into a first member that holds a struct under its own name and the outer struct's omitted member keeps a nil NextField (nil dereference in the interpreter)")
			return true
		})
	}
	if n < 2 {
		rc.Unknown("encoder/head-skipping-loops", token.NoPos, "found %d loops that step over OpStructHead/OpStructField along Next (confirmed: 2)", n)
	}
}

// ---- C08.R26 a range shortcut in an operation conversion leaves out no operation it would convert ----

// The conversions between operation variants (HeadToPtrHead, PtrHeadToHead, FieldToEnd, …) decide by the name of the
// operation: they look for a part of it (strings.Index(t.String(), "PtrHead")) and return the neighbour whose name
// matches. A shortcut in front (`if t < OpA || t >= OpB { return t }`) relies on the order of the generated
// constants, and is right only if no operation in the range it returns early for has the name part the function
// looks for. The condition is evaluated for every operation value, and the names are read from opTypeStrings: an
// operation that is returned unchanged by the shortcut although its name holds the part is reported (with an
// exclusive bound the last pointer head, OpStructPtrHeadOmitEmpty, stays a pointer head in the body a recursive
// reference jumps to: it dereferences the struct's first word).
func c08r26(rc *core.RC) {
	p := rc.P
	pk := p.Pkg("encoder")
	if pk == nil {
		rc.Unknown("encoder", token.NoPos, "package not found")
		return
	}
	info := pk.TypesInfo
	// the names, by value
	var names []string
	for _, f := range pk.Syntax {
		ast.Inspect(f, func(m ast.Node) bool {
			vs, ok := m.(*ast.ValueSpec)
			if !ok || len(vs.Names) != 1 || vs.Names[0].Name != "opTypeStrings" || len(vs.Values) != 1 {
				return true
			}
			if cl, ok := vs.Values[0].(*ast.CompositeLit); ok {
				for _, e := range cl.Elts {
					if tv, has := info.Types[e]; has && tv.Value != nil && tv.Value.Kind() == constant.String {
						names = append(names, constant.StringVal(tv.Value))
					}
				}
			}
			return true
		})
	}
	if len(names) < 300 {
		rc.Unknown("encoder/opTypeStrings", token.NoPos, "the table of operation names was not found (%d entries)", len(names))
		return
	}
	n := 0
	for _, fd := range p.Funcs("encoder") {
		if fd.Body == nil || fd.Recv == nil || len(fd.Recv.List) != 1 || len(fd.Recv.List[0].Names) != 1 {
			continue
		}
		fn, _ := info.Defs[fd.Name].(*types.Func)
		if fn == nil {
			continue
		}
		sig := fn.Type().(*types.Signature)
		if !strings.HasSuffix(sig.Recv().Type().String(), "encoder.OpType") || sig.Results().Len() != 1 || !strings.HasSuffix(sig.Results().At(0).Type().String(), "encoder.OpType") {
			continue
		}
		recv := info.Defs[fd.Recv.List[0].Names[0]]
		name := p.FuncName(fd)
		// the name part the function looks for
		needle := ""
		ast.Inspect(fd.Body, func(m ast.Node) bool {
			c, ok := m.(*ast.CallExpr)
			if !ok || needle != "" || len(c.Args) != 2 {
				return true
			}
			cn := core.CalleeName(info, c)
			if cn != "strings.Index" && cn != "strings.Contains" {
				return true
			}
			if tv, has := info.Types[c.Args[1]]; has && tv.Value != nil && tv.Value.Kind() == constant.String {
				needle = constant.StringVal(tv.Value)
			}
			return true
		})
		if needle == "" {
			continue
		}
		n++
		rc.Touch(name)
		key := name + "/range-shortcut-leaves-out-no-operation"
		bad, undecided := "", ""
		guards := 0
		for _, st := range fd.Body.List {
			ifs, ok := st.(*ast.IfStmt)
			if !ok || ifs.Init != nil || len(ifs.Body.List) != 1 {
				continue
			}
			ret, ok := ifs.Body.List[0].(*ast.ReturnStmt)
			if !ok || len(ret.Results) != 1 || core.ObjOf(info, ret.Results[0]) != recv {
				continue
			}
			// an ordering comparison on the receiver
			ordered := false
			ast.Inspect(ifs.Cond, func(m ast.Node) bool {
				if be, ok := m.(*ast.BinaryExpr); ok {
					switch be.Op {
					case token.LSS, token.LEQ, token.GTR, token.GEQ:
						if core.ObjOf(info, be.X) == recv || core.ObjOf(info, be.Y) == recv {
							ordered = true
						}
					}
				}
				return true
			})
			if !ordered {
				continue
			}
			guards++
			for v := range names {
				bp := &core.BytePred{P: p}
				taken, ok := bp.EvalBool(info, ifs.Cond, core.Bind(recv, int64(v)))
				if !ok {
					undecided = core.Src(p.Fset, ifs.Cond)
					break
				}
				if taken && strings.Contains(names[v], needle) && bad == "" {
					bad = fmt.Sprintf("Op%s (%d)", names[v], v)
				}
			}
		}
		switch {
		case undecided != "":
			rc.Unknown(key, fd.Pos(), "the shortcut `%s` could not be evaluated for every operation value", undecided)
		case bad != "":
			rc.Bad(key, fd.Pos(), "the range shortcut in front of the name search returns %s unchanged although its name holds %q, the part this conversion looks for: that operation is never converted (the body a recursive reference jumps to keeps a pointer head and dereferences the struct's first word)", bad, needle)
		case guards == 0:
			rc.OK(key, fd.Pos(), "decides by the operation's name alone (looks for %q): no shortcut on the order of the constants", needle)
		default:
			rc.OK(key, fd.Pos(), "%d range shortcut(s), evaluated for all %d operation values: none returns early for an operation whose name holds %q", guards, len(names), needle)
		}
	}
	if n < 4 {
		rc.Unknown("encoder/operation-conversions", token.NoPos, "found %d conversion methods of OpType that search the operation's name (confirmed: 5)", n)
	}
}

// ---- C08.R27 the cycle search runs before the pointer is recorded ----

// OpRecursive records the address it is about to follow in ctx.SeenPtr and, beyond a thousand levels, first looks
// whether that address is already there: a hit is a cycle. The search has to come before the record. With the append
// in front the search always finds the address just recorded: every acyclic value nested deeper than the threshold is
// refused as "encountered a cycle" (a linked list of 1003 nodes no longer encodes). Obligation, in the clause of every
// interpreter that ranges over ctx.SeenPtr: the append to ctx.SeenPtr stands behind the loop.
func c08r27(rc *core.RC) {
	p := rc.P
	n := 0
	for _, vm := range core.VMPkgs {
		fd := p.Func(vm, "Run")
		if fd == nil || fd.Body == nil {
			rc.Unknown(vm+".Run", token.NoPos, "interpreter not found")
			continue
		}
		info := p.Info(fd)
		rc.Touch(vm + ".Run")
		isSeen := func(e ast.Expr) bool {
			f := core.FieldOf(info, e)
			return f != nil && f.Name() == "SeenPtr"
		}
		k := 0
		ast.Inspect(fd.Body, func(m ast.Node) bool {
			cc, ok := m.(*ast.CaseClause)
			if !ok {
				return true
			}
			var search, record token.Pos
			ast.Inspect(cc, func(x ast.Node) bool {
				switch v := x.(type) {
				case *ast.RangeStmt:
					if isSeen(v.X) && !search.IsValid() {
						search = v.Pos()
					}
				case *ast.AssignStmt:
					if len(v.Lhs) == 1 && len(v.Rhs) == 1 && isSeen(v.Lhs[0]) {
						if c, ok := core.Unparen(v.Rhs[0]).(*ast.CallExpr); ok && core.IsBuiltin(info, c, "append") && !record.IsValid() {
							record = v.Pos()
						}
					}
				}
				return true
			})
			if !search.IsValid() || !record.IsValid() {
				return true
			}
			k++
			n++
			rc.Check(search < record, fmt.Sprintf("%s.Run/cycle-search#%d before-the-record", vm, k), record, "the address is appended to ctx.SeenPtr in front of the loop that searches ctx.SeenPtr for it: the search finds what was just recorded, and every value nested deeper than the threshold is refused as a cycle")
			return false
		})
	}
	if n < 4 {
		rc.Unknown("vm/cycle-searches", token.NoPos, "found %d clauses that search and record ctx.SeenPtr (confirmed: 4, one per interpreter)", n)
	}
}

// ---- C08.R28 every walk over a program leaves an element loop through End ----

// In a compiled program the operations that close the body of a loop over elements (OpSliceElem, OpArrayElem,
// OpMapKey and their families) point back into the body with Next and behind the loop with End. A walk that visits
// every operation once (IterNext, Dump, DumpDOT) therefore has to follow End at exactly these code types; following
// Next there walks the body for ever. Obligation: in package encoder, every switch over <x>.Op.CodeType() that
// advances x (x = x.Next / x = x.End / return x.End …) sends exactly CodeArrayElem, CodeSliceElem and CodeMapKey
// to End.
func c08r28(rc *core.RC) {
	p := rc.P
	want := map[string]bool{"CodeArrayElem": true, "CodeSliceElem": true, "CodeMapKey": true}
	n := 0
	for _, fd := range p.Funcs("encoder") {
		if fd.Body == nil {
			continue
		}
		info := p.Info(fd)
		k := 0
		ast.Inspect(fd.Body, func(m ast.Node) bool {
			sw, ok := m.(*ast.SwitchStmt)
			if !ok || sw.Tag == nil {
				return true
			}
			call, ok := core.Unparen(sw.Tag).(*ast.CallExpr)
			if !ok || !strings.HasSuffix(core.CalleeName(info, call), "OpType.CodeType") {
				return true
			}
			sel, ok := core.Unparen(call.Fun).(*ast.SelectorExpr)
			if !ok {
				return true
			}
			opSel, ok := core.Unparen(sel.X).(*ast.SelectorExpr)
			if !ok || opSel.Sel.Name != "Op" {
				return true
			}
			walker := core.ObjOf(info, opSel.X)
			if walker == nil {
				return true
			}
			// how each clause advances the walker
			step := func(body []ast.Stmt) string {
				res := ""
				for _, st := range body {
					ast.Inspect(st, func(q ast.Node) bool {
						var rhs ast.Expr
						switch x := q.(type) {
						case *ast.AssignStmt:
							if len(x.Lhs) == 1 && len(x.Rhs) == 1 && core.ObjOf(info, x.Lhs[0]) == walker {
								rhs = x.Rhs[0]
							}
						case *ast.ReturnStmt:
							if len(x.Results) == 1 {
								rhs = x.Results[0]
							}
						}
						if rhs != nil {
							if s, isSel := core.Unparen(rhs).(*ast.SelectorExpr); isSel && core.ObjOf(info, s.X) == walker && (s.Sel.Name == "End" || s.Sel.Name == "Next") {
								res = s.Sel.Name
							}
						}
						return true
					})
				}
				return res
			}
			toEnd := map[string]bool{}
			steps := 0
			for _, st := range sw.Body.List {
				cc := st.(*ast.CaseClause)
				s := step(cc.Body)
				if s != "" {
					steps++
				}
				if s == "End" {
					for _, l := range cc.List {
						toEnd[types.ExprString(core.Unparen(l))] = true
					}
				}
			}
			if steps == 0 {
				return true
			}
			// the statement behind the switch may be the default step (return c.Next behind the switch)
			n++
			k++
			rc.Touch(p.FuncName(fd))
			key := fmt.Sprintf("%s/walk#%d leaves-element-loops-through-End", p.FuncName(fd), k)
			var missing, extra []string
			for w := range want {
				if !toEnd[w] {
					missing = append(missing, w)
				}
			}
			for g := range toEnd {
				if !want[g] {
					extra = append(extra, g)
				}
			}
			sort.Strings(missing)
			sort.Strings(extra)
			switch {
			case len(missing) > 0:
				rc.Bad(key, sw.Pos(), "the walk follows Next at %s: the operation that closes the body of an element loop points back into the body with Next, so the walk never reaches the end of a program that holds such a loop (Debug with DebugDOT, Dump)", strings.Join(missing, ", "))
			case len(extra) > 0:
				rc.Bad(key, sw.Pos(), "the walk follows End at %s, which is no operation that closes an element loop: the operations between it and its End are not visited", strings.Join(extra, ", "))
			default:
				rc.OK(key, sw.Pos(), "CodeArrayElem, CodeSliceElem and CodeMapKey step to End, everything else to Next")
			}
			return true
		})
	}
	if n < 3 {
		rc.Unknown("encoder/program-walks", token.NoPos, "found %d walks over a program by code type, fewer than the 3 confirmed by hand (IterNext, Dump, DumpDOT)", n)
	}
}

// ---- C08.R29 a marshal method that takes a context is never handed a nil context ----

// Marshal, MarshalIndent and the Encoder run without a context: RuntimeContext.Option.Context is nil then. A
// MarshalJSON(context.Context) method that does what such methods are for (ctx.Value, handing ctx on to
// MarshalContext, which asks it for the field query) dereferences the nil interface and panics inside a plain Marshal
// of an acyclic value. Obligation, for every call of the MarshalJSON(context.Context) method of the marshalerContext
// interface in package encoder: the argument is a local that, where it is nil, was given a context made by package
// context (if arg == nil { arg = context.Background() }) in front of the call.
func c08r29(rc *core.RC) { contextNotNil(rc, "encoder", "MarshalJSON", 1, 2) }

// C06.R19 is the same obligation for the UnmarshalJSON(context.Context, []byte) calls of package decoder; there the
// accepted form is also the one unmarshalJSONDecoder has: the local is assigned Option.Context where the ContextOption
// flag is set and context.Background() otherwise.
func c06r19(rc *core.RC) { contextNotNil(rc, "decoder", "UnmarshalJSON", 2, 4) }

func contextNotNil(rc *core.RC, short, method string, nargs, min int) {
	p := rc.P
	n := 0
	for _, fd := range p.Funcs(short) {
		if fd.Body == nil {
			continue
		}
		info := p.Info(fd)
		var calls []*ast.CallExpr
		ast.Inspect(fd.Body, func(m ast.Node) bool {
			call, ok := m.(*ast.CallExpr)
			if !ok || len(call.Args) != nargs {
				return true
			}
			sel, isSel := core.Unparen(call.Fun).(*ast.SelectorExpr)
			if !isSel || sel.Sel.Name != method {
				return true
			}
			if t := info.TypeOf(call.Args[0]); t == nil || t.String() != "context.Context" {
				return true
			}
			calls = append(calls, call)
			return true
		})
		if len(calls) == 0 {
			continue
		}
		cf := core.BuildCFGFor(fd, info)
		rc.Touch(p.FuncName(fd))
		for i, call := range calls {
			n++
			key := fmt.Sprintf("%s/%s(ctx)#%d context-not-nil", p.FuncName(fd), method, i+1)
			obj := core.ObjOf(info, call.Args[0])
			if obj == nil {
				if f := core.FieldOf(info, core.Unparen(call.Args[0])); f != nil && f.Name() == "Context" {
					rc.Bad(key, call.Pos(), "the context handed to %s(ctx) is %s as it is: nil under the entry points that take no context, so a method that uses its context panics on a nil interface in the middle of a plain call", method, core.Src(p.Fset, call.Args[0]))
				} else {
					rc.Unknown(key, call.Pos(), "the context argument %s is no local", core.Src(p.Fset, call.Args[0]))
				}
				continue
			}
			proven := ""
			ast.Inspect(fd.Body, func(m ast.Node) bool {
				ifs, ok := m.(*ast.IfStmt)
				if !ok || proven != "" || ifs.End() > call.Pos() {
					return true
				}
				be, isB := core.Unparen(ifs.Cond).(*ast.BinaryExpr)
				if !isB || be.Op != token.EQL || core.ObjOf(info, be.X) != obj {
					return true
				}
				if tv, has := info.Types[be.Y]; !has || !tv.IsNil() {
					return true
				}
				for _, st := range ifs.Body.List {
					as, isAs := st.(*ast.AssignStmt)
					if !isAs || len(as.Lhs) != 1 || len(as.Rhs) != 1 || core.ObjOf(info, as.Lhs[0]) != obj {
						continue
					}
					if c, isCall := core.Unparen(as.Rhs[0]).(*ast.CallExpr); isCall {
						if cn := core.CalleeName(info, c); cn == "context.Background" || cn == "context.TODO" {
							if cf.NodeBefore(ifs.Cond, call) {
								proven = cn
							}
						}
					}
				}
				return true
			})
			if proven == "" {
				// every definition of the local is context.Background() or Option.Context under a test of the ContextOption flag
				defs, good := 0, 0
				ast.Inspect(fd.Body, func(m ast.Node) bool {
					as, isAs := m.(*ast.AssignStmt)
					if !isAs || len(as.Lhs) != 1 || len(as.Rhs) != 1 || core.ObjOf(info, as.Lhs[0]) != obj {
						return true
					}
					defs++
					rhs := core.Unparen(as.Rhs[0])
					if c, isCall := rhs.(*ast.CallExpr); isCall {
						if cn := core.CalleeName(info, c); cn == "context.Background" || cn == "context.TODO" {
							good++
						}
						return true
					}
					if f := core.FieldOf(info, rhs); f != nil && f.Name() == "Context" {
						for _, anc := range core.PathTo(fd.Body, as) {
							ifs, isIf := anc.(*ast.IfStmt)
							if !isIf || !strings.Contains(core.Src(p.Fset, ifs.Cond), "ContextOption") {
								continue
							}
							// the branch on which the flag is set: `flags&ContextOption != 0` (then), its negation or `== 0` (else)
							cnd, flip := stripNot(ifs.Cond)
							setWhenTrue := !flip
							if be, isB := core.Unparen(cnd).(*ast.BinaryExpr); isB && be.Op == token.EQL {
								setWhenTrue = flip
							}
							inBody := ifs.Body.Pos() <= as.Pos() && as.End() <= ifs.Body.End()
							inElse := ifs.Else != nil && ifs.Else.Pos() <= as.Pos() && as.End() <= ifs.Else.End()
							if (setWhenTrue && inBody) || (!setWhenTrue && inElse) {
								good++
								break
							}
						}
					}
					return true
				})
				if defs >= 2 && defs == good {
					proven = "context.Background"
				}
			}
			if proven != "" {
				rc.OK(key, call.Pos(), "%s is the call's context where one was given and %s() otherwise", obj.Name(), proven)
			} else {
				rc.Bad(key, call.Pos(), "the context handed to %s(ctx) is Option.Context as it is: nil under the entry points that take no context, so a method that uses its context (ctx.Value, handing it on to MarshalContext / UnmarshalContext) panics on a nil interface in the middle of a plain call", method)
			}
		}
	}
	if n < min {
		rc.Unknown(short+"/"+method+"(ctx)-calls", token.NoPos, "found %d calls of %s(context.Context …), fewer than the %d confirmed by hand", n, method, min)
	}
}

// ---- C08.R30 the last member of an embedded struct has somewhere to go on, however deep it lies ----

// A member that can be omitted follows NextField when it is. For the last member of an embedded struct that link is
// made by whoever places the struct: the next member of the embedding struct, or the end of the struct. Three places
// make it, and each has to reach the member that is really the last one, which lies one level deeper for every
// embedded struct that stands last in an embedded struct: (1) ToAnonymousOpcode, for an embedded member of an
// embedded struct, links the result of lastAnonymousFieldCode to the next member, as ToOpcode does through
// lastFieldCode; (2) lastAnonymousFieldCode and (3) addStructEndCode follow NextField inside a loop that goes on
// while the operation reached is the head of another embedded struct. Without (1) struct{ E1; Z } with
// E1{ E2; B } and E2{ Y omitempty } lost B whenever Y was empty; without (2) and (3) the inner member kept a nil link
// and the interpreter dereferenced it.
func c08r30(rc *core.RC) {
	p := rc.P
	pk := p.Pkg("encoder")
	if pk == nil {
		return
	}
	info := pk.TypesInfo
	// (1)
	{
		key := "encoder.(*StructCode).ToAnonymousOpcode/last-member-of-an-embedded-member-linked"
		fd := p.Func("encoder", "StructCode.ToAnonymousOpcode")
		if fd == nil || fd.Body == nil {
			rc.Unknown(key, token.NoPos, "ToAnonymousOpcode not found")
		} else {
			rc.Touch(p.FuncName(fd))
			// a local that receives lastAnonymousFieldCode(…) / lastFieldCode(…) and whose NextField is assigned
			got := map[types.Object]bool{}
			ast.Inspect(fd.Body, func(m ast.Node) bool {
				if as, ok := m.(*ast.AssignStmt); ok && len(as.Lhs) == 1 && len(as.Rhs) == 1 {
					if c, isCall := core.Unparen(as.Rhs[0]).(*ast.CallExpr); isCall {
						if cn := core.CalleeName(info, c); strings.HasSuffix(cn, "lastAnonymousFieldCode") || strings.HasSuffix(cn, "lastFieldCode") {
							if o := core.ObjOf(info, as.Lhs[0]); o != nil {
								got[o] = true
							}
						}
					}
				}
				return true
			})
			linked := false
			ast.Inspect(fd.Body, func(m ast.Node) bool {
				if as, ok := m.(*ast.AssignStmt); ok && len(as.Lhs) == 1 {
					if sel, isSel := core.Unparen(as.Lhs[0]).(*ast.SelectorExpr); isSel && sel.Sel.Name == "NextField" && got[core.ObjOf(info, sel.X)] {
						linked = true
					}
				}
				return true
			})
			rc.Check(linked, key, fd.Pos(), "ToAnonymousOpcode links the last member of an embedded member (lastAnonymousFieldCode / lastFieldCode) to the member behind it; linking only the embedded member's first operation leaves its last member going on behind the embedding struct, and the members in between are not written when it is omitted")
		}
	}
	// (2), (3)
	for _, name := range []string{"StructCode.lastAnonymousFieldCode", "StructFieldCode.addStructEndCode"} {
		key := "encoder." + name + "/descends-through-embedded-structs-that-stand-last"
		fd := p.Func("encoder", name)
		if fd == nil || fd.Body == nil {
			rc.Unknown(key, token.NoPos, "function not found")
			continue
		}
		rc.Touch(p.FuncName(fd))
		nested := false
		ast.Inspect(fd.Body, func(m ast.Node) bool {
			outer, ok := m.(*ast.ForStmt)
			if !ok || outer.Cond == nil {
				return true
			}
			ast.Inspect(outer.Body, func(q ast.Node) bool {
				inner, isFor := q.(*ast.ForStmt)
				if !isFor || inner.Cond == nil {
					return true
				}
				be, isB := core.Unparen(inner.Cond).(*ast.BinaryExpr)
				if isB && be.Op == token.NEQ {
					if f := core.FieldOf(info, be.X); f != nil && f.Name() == "NextField" {
						nested = true
					}
				}
				return true
			})
			return true
		})
		rc.Check(nested, key, fd.Pos(), "the walk along NextField stands inside a loop that goes on while the operation reached heads another embedded struct: an embedded struct that stands last in an embedded struct has its last member one level deeper, and that member's link stays nil otherwise (nil dereference in the interpreter when it is omitted)")
	}
}

// ---- C08.R31 a program compiled for a query is kept by the cache that hands it out ----

// The interpreter keeps the addresses it returns to (the caller's program, at OpInterfaceEnd and OpRecursiveEnd) only
// as uintptr in the frame. What keeps a program alive is the cache it comes from: the type caches for ordinary
// programs, OpcodeSet.QueryCache for a program filtered by a field query. A filtered program that is handed to the
// interpreter without being stored has no root the collector can see once the interpreter is inside a nested frame.
// Obligation: every store into QueryCache stands directly in the body of its function (between Lock and Unlock), under
// no condition.
func c08r31(rc *core.RC) {
	p := rc.P
	n := 0
	for _, fd := range p.Funcs("encoder") {
		if fd.Body == nil {
			continue
		}
		info := p.Info(fd)
		k := 0
		ast.Inspect(fd.Body, func(m ast.Node) bool {
			as, ok := m.(*ast.AssignStmt)
			if !ok {
				return true
			}
			for _, l := range as.Lhs {
				ix, isIx := core.Unparen(l).(*ast.IndexExpr)
				if !isIx {
					continue
				}
				if f := core.FieldOf(info, core.Unparen(ix.X)); f == nil || f.Name() != "QueryCache" {
					continue
				}
				n++
				k++
				rc.Touch(p.FuncName(fd))
				key := fmt.Sprintf("%s/QueryCache-store#%d unconditional", p.FuncName(fd), k)
				direct := false
				for _, st := range fd.Body.List {
					if st == ast.Stmt(as) {
						direct = true
					}
				}
				if direct {
					rc.OK(key, as.Pos(), "every program compiled for a query is stored")
				} else {
					rc.Bad(key, as.Pos(), "the program compiled for a query is stored only under a condition: one that is not stored is run by the interpreter all the same, and nothing the collector can see refers to it while the interpreter is inside a nested frame (the return address in the frame is a uintptr)")
				}
			}
			return true
		})
	}
	if n < 1 {
		rc.Unknown("encoder/QueryCache-stores", token.NoPos, "no store into OpcodeSet.QueryCache found")
	}
}
