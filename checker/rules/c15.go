package rules

import (
	"fmt"
	"go/ast"
	"go/token"
	"go/types"
	"strings"
	"unicode"

	"golang.org/x/tools/go/cfg"

	"verif/checker/core"
)

var bitmapDecoders = []string{"decodeKeyByBitmapUint8", "decodeKeyByBitmapUint16", "decodeKeyByBitmapUint8Stream", "decodeKeyByBitmapUint16Stream"}

// bitmapElemBits returns N for a type [][256]uintN (0 otherwise).
func bitmapElemBits(t types.Type) int {
	sl, ok := t.Underlying().(*types.Slice)
	if !ok {
		return 0
	}
	arr, ok := sl.Elem().Underlying().(*types.Array)
	if !ok || arr.Len() != 256 {
		return 0
	}
	b, ok := arr.Elem().Underlying().(*types.Basic)
	if !ok {
		return 0
	}
	switch b.Kind() {
	case types.Uint8:
		return 8
	case types.Uint16:
		return 16
	case types.Uint32:
		return 32
	case types.Uint64:
		return 64
	}
	return 0
}

func c15r1(rc *core.RC) {
	p := rc.P
	fd := p.Func("decoder", "structDecoder.tryOptimize")
	if fd == nil {
		rc.Unknown("decoder.structDecoder.tryOptimize", token.NoPos, "optimiser not found")
		return
	}
	rc.Touch("decoder.structDecoder.tryOptimize")
	info := p.Info(fd)
	// returning guards `len(x) > C { …return }` in order of appearance
	type bound struct {
		pos token.Pos
		c   int64
	}
	var earlyBounds []bound
	lenCmp := func(e ast.Expr) (op token.Token, c int64, ok bool) {
		be, isB := core.Unparen(e).(*ast.BinaryExpr)
		if !isB {
			return
		}
		call, isCall := core.Unparen(be.X).(*ast.CallExpr)
		if !isCall || !core.IsBuiltin(info, call, "len") {
			return
		}
		v, isC := core.ConstInt(info, be.Y)
		if !isC {
			return
		}
		return be.Op, v, true
	}
	// a guard inside a loop that appends to the measured slice afterwards bounds the final length by one more
	appendsAfter := func(ifs *ast.IfStmt, measured ast.Expr) bool {
		obj := core.ObjOf(info, measured)
		if obj == nil {
			return false
		}
		grows := false
		for _, anc := range core.PathTo(fd.Body, ifs) {
			var body *ast.BlockStmt
			switch l := anc.(type) {
			case *ast.ForStmt:
				body = l.Body
			case *ast.RangeStmt:
				body = l.Body
			}
			if body == nil {
				continue
			}
			ast.Inspect(body, func(m ast.Node) bool {
				as, ok := m.(*ast.AssignStmt)
				if !ok || len(as.Lhs) != 1 || len(as.Rhs) != 1 || core.ObjOf(info, as.Lhs[0]) != obj {
					return true
				}
				if c, ok := core.Unparen(as.Rhs[0]).(*ast.CallExpr); ok && core.IsBuiltin(info, c, "append") {
					grows = true
				}
				return true
			})
		}
		return grows
	}
	ast.Inspect(fd.Body, func(n ast.Node) bool {
		ifs, ok := n.(*ast.IfStmt)
		if !ok || len(ifs.Body.List) == 0 {
			return true
		}
		if _, isRet := ifs.Body.List[len(ifs.Body.List)-1].(*ast.ReturnStmt); !isRet {
			return true
		}
		for _, d := range disjuncts(ifs.Cond) {
			op, c, ok := lenCmp(d)
			if !ok {
				continue
			}
			if op == token.GEQ {
				c--
			} else if op != token.GTR {
				continue
			}
			if appendsAfter(ifs, core.Unparen(d).(*ast.BinaryExpr).X.(*ast.CallExpr).Args[0]) {
				c++
			}
			earlyBounds = append(earlyBounds, bound{ifs.End(), c})
		}
		return true
	})
	n := 0
	ast.Inspect(fd.Body, func(x ast.Node) bool {
		call, ok := x.(*ast.CallExpr)
		if !ok || !core.IsBuiltin(info, call, "make") || len(call.Args) < 2 {
			return true
		}
		tv := info.Types[call.Args[0]]
		bits := bitmapElemBits(tv.Type)
		if bits == 0 {
			return true
		}
		n++
		key := fmt.Sprintf("decoder.structDecoder.tryOptimize/bitmap uint%d/field-bound", bits)
		// bound on the number of keys at this site
		best := int64(-1)
		for _, b := range earlyBounds {
			if b.pos < call.Pos() && (best < 0 || b.c < best) {
				best = b.c
			}
		}
		for _, c := range condChainNodes(fd, call) {
			if op, v, ok := lenCmp(c.cond); ok {
				if !c.pos {
					// the branch is taken when the comparison fails
					switch op {
					case token.GTR:
						op = token.LEQ
					case token.GEQ:
						op = token.LSS
					default:
						continue
					}
				}
				switch op {
				case token.LEQ:
					if best < 0 || v < best {
						best = v
					}
				case token.LSS:
					if best < 0 || v-1 < best {
						best = v - 1
					}
				}
			}
		}
		if best < 0 {
			rc.Bad(key, call.Pos(), "no guard bounds the number of field names before a uint%d bitmap is built: bit i of 1<<i is lost for i >= %d", bits, bits)
		} else {
			rc.Check(best <= int64(bits), key, call.Pos(), "at most %d field names reach this branch; a uint%d bitmap distinguishes %d", best, bits, bits)
		}
		// rows: make(_, L) with L defined as maxKeyLen + k, k >= 1
		lobj := core.ObjOf(info, call.Args[1])
		rows := false
		ast.Inspect(fd.Body, func(m ast.Node) bool {
			if as, ok := m.(*ast.AssignStmt); ok && len(as.Lhs) == 1 && len(as.Rhs) == 1 && core.ObjOf(info, as.Lhs[0]) == lobj && lobj != nil {
				if be, ok := core.Unparen(as.Rhs[0]).(*ast.BinaryExpr); ok && be.Op == token.ADD {
					if k, ok := core.ConstInt(info, be.Y); ok && k >= 1 {
						rows = true
					}
				}
			}
			return true
		})
		rc.Check(rows, fmt.Sprintf("decoder.structDecoder.tryOptimize/bitmap uint%d/rows", bits), call.Pos(), "the bitmap has one row more than the longest key (the decoders index row keyIdx without a length test)")
		return true
	})
	if n < 2 {
		rc.Unknown("decoder.structDecoder.tryOptimize/bitmaps", fd.Pos(), "expected the uint8 and uint16 bitmap allocations, found %d", n)
	}
}

type condNode struct {
	cond ast.Expr
	pos  bool
}

func condChainNodes(fd *ast.FuncDecl, n ast.Node) []condNode {
	var out []condNode
	path := core.PathTo(fd.Body, n)
	for i, pn := range path {
		ifs, ok := pn.(*ast.IfStmt)
		if !ok || i+1 >= len(path) {
			continue
		}
		cond, flip := stripNot(ifs.Cond)
		if path[i+1] == ast.Node(ifs.Body) {
			out = append(out, condNode{cond, !flip})
		} else if ifs.Else != nil && path[i+1] == ifs.Else {
			out = append(out, condNode{cond, flip})
		}
	}
	return out
}

// rowIndexVars returns the variables used as first index of the bitmap (bitmap[keyIdx][…]).
func rowIndexVars(info *types.Info, fd *ast.FuncDecl) (map[types.Object]bool, []*ast.IndexExpr) {
	rows := map[types.Object]bool{}
	var cols []*ast.IndexExpr
	ast.Inspect(fd.Body, func(n ast.Node) bool {
		outer, ok := n.(*ast.IndexExpr)
		if !ok {
			return true
		}
		inner, ok := core.Unparen(outer.X).(*ast.IndexExpr)
		if !ok {
			return true
		}
		if tv := info.Types[inner.X]; tv.Type == nil || bitmapElemBits(tv.Type) == 0 {
			return true
		}
		if o := core.ObjOf(info, inner.Index); o != nil {
			rows[o] = true
		}
		cols = append(cols, outer)
		return true
	})
	return rows, cols
}

func c15r2(rc *core.RC) {
	p := rc.P
	for _, name := range bitmapDecoders {
		fd := p.Func("decoder", name)
		if fd == nil {
			rc.Unknown("decoder."+name, token.NoPos, "bitmap key decoder not found")
			continue
		}
		rc.Touch("decoder." + name)
		info := p.Info(fd)
		rows, _ := rowIndexVars(info, fd)
		found := false
		ast.Inspect(fd.Body, func(n ast.Node) bool {
			be, ok := n.(*ast.BinaryExpr)
			if !ok {
				return true
			}
			var other ast.Expr
			if f := core.FieldOf(info, be.Y); f != nil && f.Name() == "keyLen" {
				other = be.X
			} else if f := core.FieldOf(info, be.X); f != nil && f.Name() == "keyLen" {
				other = be.Y
			}
			if other == nil {
				return true
			}
			found = true
			// objects the compared expression depends on (through single local definitions)
			deps := map[types.Object]bool{}
			var walk func(e ast.Expr, depth int)
			walk = func(e ast.Expr, depth int) {
				ast.Inspect(e, func(m ast.Node) bool {
					id, ok := m.(*ast.Ident)
					if !ok {
						return true
					}
					o := info.Uses[id]
					if _, isVar := o.(*types.Var); !isVar || deps[o] {
						return true
					}
					deps[o] = true
					if depth < 3 {
						ast.Inspect(fd.Body, func(k ast.Node) bool {
							if as, ok := k.(*ast.AssignStmt); ok && as.Tok == token.DEFINE && len(as.Lhs) == len(as.Rhs) {
								for i, l := range as.Lhs {
									if core.ObjOf(info, l) == o {
										walk(as.Rhs[i], depth+1)
									}
								}
							}
							return true
						})
					}
					return true
				})
			}
			walk(other, 0)
			usesRow, usesCursor := false, false
			for o := range deps {
				if rows[o] {
					usesRow = true
				}
				if isCursorObj(o) {
					usesCursor = true
				}
			}
			key := "decoder." + name + "/keyLen-compare"
			switch {
			case usesRow && !usesCursor:
				rc.OK(key, be.Pos(), "field.keyLen is compared with the number of decoded key characters")
			case usesCursor:
				rc.Bad(key, be.Pos(), "field.keyLen is compared with a distance between raw cursor positions (%s); the loop has an escape branch, so an escaped spelling of a shorter key has a larger raw length and selects the longer field", core.Src(p.Fset, other))
			default:
				rc.Unknown(key, be.Pos(), "cannot relate %s to the bitmap row counter", core.Src(p.Fset, other))
			}
			return true
		})
		if !found {
			rc.Unknown("decoder."+name+"/keyLen-compare", fd.Pos(), "no comparison with field.keyLen found")
		}
	}
}

// ---- C15.R3 siblings ----

var widthSubst = map[string]string{
	"uint16": "uint8", "TrailingZeros16": "TrailingZeros8", "keyBitmapUint16": "keyBitmapUint8", "MaxUint16": "MaxUint8",
}

func c15r3(rc *core.RC) {
	p := rc.P
	info := p.Pkg("decoder").TypesInfo
	for _, pair := range [][2]string{{"decodeKeyByBitmapUint8", "decodeKeyByBitmapUint16"}, {"decodeKeyByBitmapUint8Stream", "decodeKeyByBitmapUint16Stream"}} {
		a, b := p.Func("decoder", pair[0]), p.Func("decoder", pair[1])
		key := "decoder." + pair[1] + "/same-as-" + pair[0]
		if a == nil || b == nil {
			rc.Unknown(key, token.NoPos, "sibling not found")
			continue
		}
		na := core.NormalNode(p.Fset, info, a.Body, core.NormOpts{Subst: widthSubst})
		nb := core.NormalNode(p.Fset, info, b.Body, core.NormOpts{Subst: widthSubst})
		if na == nb {
			rc.OK(key, b.Pos(), "identical up to the width substitution uint8↔uint16")
		} else {
			at := diffAt(na, nb)
			lo := at - 60
			if lo < 0 {
				lo = 0
			}
			rc.Bad(key, b.Pos(), "the 8- and 16-field key decoders must differ only in the bitmap width; they differ near %q vs %q", core.Clip(na[lo:], 120), core.Clip(nb[lo:], 120))
		}
	}
	// buffer vs stream: same key-byte classes in the key loop (stream adds only NUL→refill)
	for _, pair := range [][2]string{{"decodeKeyByBitmapUint8", "decodeKeyByBitmapUint8Stream"}, {"decodeKeyByBitmapUint16", "decodeKeyByBitmapUint16Stream"}} {
		key := "decoder." + pair[1] + "/same-classes-as-" + pair[0]
		sa, sb := keyLoopLabels(rc, pair[0]), keyLoopLabels(rc, pair[1])
		if sa == nil || sb == nil {
			rc.Unknown(key, token.NoPos, "key loop dispatch not found")
			continue
		}
		same := len(sa) == len(sb)
		for k := range sa {
			if !sb[k] {
				same = false
			}
		}
		rc.Check(same, key, token.NoPos, "the in-key dispatch of both modes has clauses for the same bytes (%d labels)", len(sa))
	}
}

func keyLoopLabels(rc *core.RC, name string) map[int]bool {
	fd := rc.P.Func("decoder", name)
	if fd == nil {
		return nil
	}
	info := rc.P.Info(fd)
	var out map[int]bool
	ast.Inspect(fd.Body, func(n ast.Node) bool {
		sw, ok := n.(*ast.SwitchStmt)
		if !ok {
			return true
		}
		bs, _ := core.EvalByteSwitch(info, sw)
		if bs != nil && bs.HasSingleton('\\') && bs.HasSingleton('"') {
			out = map[int]bool{}
			for _, l := range bs.Labels {
				for _, b := range l {
					out[b] = true
				}
			}
		}
		return true
	})
	return out
}

// ---- C15.R4 one tag parser ----

func c15r4(rc *core.RC) {
	p := rc.P
	for _, short := range []string{"encoder", "decoder", "json"} {
		uses, direct := 0, 0
		for _, fd := range p.Funcs(short) {
			if fd.Body == nil {
				continue
			}
			info := p.Info(fd)
			ast.Inspect(fd.Body, func(n ast.Node) bool {
				switch x := n.(type) {
				case *ast.CallExpr:
					cn := core.CalleeName(info, x)
					if cn == "runtime.StructTagFromField" || cn == "runtime.IsIgnoredStructField" {
						uses++
						rc.CallSites++
					}
					if cn == "reflect.StructTag.Get" || cn == "reflect.StructTag.Lookup" {
						direct++
						rc.Bad(fmt.Sprintf("%s/direct-tag-read", p.FuncName(fd)), x.Pos(), "reads a struct tag with reflect.StructTag.%s instead of runtime.StructTagFromField: encoder and decoder can disagree on names and options", strings.TrimPrefix(cn, "reflect.StructTag."))
					}
				case *ast.SelectorExpr:
					if f := core.FieldOf(info, x); f != nil && f.Name() == "Tag" && f.Pkg() != nil && f.Pkg().Path() == "reflect" {
						direct++
						rc.Bad(fmt.Sprintf("%s/direct-tag-read", p.FuncName(fd)), x.Pos(), "accesses reflect.StructField.Tag directly instead of through runtime.StructTagFromField")
					}
				}
				return true
			})
		}
		if short != "json" {
			rc.Check(uses > 0, short+"/uses-runtime-tag-parser", token.NoPos, "package %s obtains keys and ignore decisions from internal/runtime (%d call sites, %d direct tag reads)", short, uses, direct)
		}
	}
}

// ---- C15.R5 normalisation symmetry ----

func c15r5(rc *core.RC) {
	p := rc.P
	tbl := p.Pkg("decoder").Types.Scope().Lookup("largeToSmallTable")
	if tbl == nil {
		rc.Unknown("decoder.largeToSmallTable", token.NoPos, "table not found")
		return
	}
	for _, name := range bitmapDecoders {
		fd := p.Func("decoder", name)
		if fd == nil {
			continue
		}
		info := p.Info(fd)
		_, cols := rowIndexVars(info, fd)
		if len(cols) == 0 {
			rc.Unknown("decoder."+name+"/bitmap-lookup", fd.Pos(), "no bitmap lookup found")
		}
		for _, c := range cols {
			ix, ok := core.Unparen(c.Index).(*ast.IndexExpr)
			good := ok && core.ObjOf(info, ix.X) == tbl
			rc.Check(good, "decoder."+name+"/bitmap-lookup", c.Pos(), "the column index %s passes through largeToSmallTable (keys are stored lower-cased)", core.Src(p.Fset, c.Index))
		}
	}
	// builder side: lower-casing and the ASCII-only refusal
	fd := p.Func("decoder", "structDecoder.tryOptimize")
	if fd == nil {
		return
	}
	info := p.Info(fd)
	lower, refuse := false, false
	ast.Inspect(fd.Body, func(n ast.Node) bool {
		switch x := n.(type) {
		case *ast.CallExpr:
			if core.CalleeName(info, x) == "strings.ToLower" {
				lower = true
			}
		case *ast.IfStmt:
			if be, ok := core.Unparen(x.Cond).(*ast.BinaryExpr); ok && be.Op == token.NEQ {
				hasASCII := false
				ast.Inspect(be, func(m ast.Node) bool {
					if c, ok := m.(*ast.CallExpr); ok && core.CalleeName(info, c) == "decoder.toASCIILower" {
						hasASCII = true
					}
					return true
				})
				if hasASCII && len(x.Body.List) > 0 {
					if _, isRet := x.Body.List[len(x.Body.List)-1].(*ast.ReturnStmt); isRet {
						refuse = true
					}
				}
			}
		}
		return true
	})
	// names with letters outside ASCII that have another case: the key in the other case ("É" for the member "é")
	// is matched by encoding/json and by the map lookup, and the bitmaps cannot fold it. The refusal is a test, in the
	// loop over the field names, that compares the characters of the name with 0x80 (directly or in one predicate
	// function) and returns.
	nonASCII := false
	mentions128 := func(info *types.Info, n ast.Node) bool {
		hit := false
		var scan func(info *types.Info, n ast.Node, depth int)
		scan = func(info *types.Info, n ast.Node, depth int) {
			ast.Inspect(n, func(m ast.Node) bool {
				switch x := m.(type) {
				case *ast.BinaryExpr:
					switch x.Op {
					case token.GEQ, token.LSS, token.GTR, token.LEQ:
						for _, side := range []ast.Expr{x.X, x.Y} {
							if v, ok := core.ConstInt(info, side); ok && (v == 128 || v == 127) {
								hit = true
							}
						}
					}
				case *ast.CallExpr:
					if depth < 1 {
						if f := core.Callee(info, x); f != nil {
							if d := p.DeclOf(f); d != nil && d.Body != nil {
								scan(p.Info(d), d.Body, depth+1)
							}
						}
					}
				}
				return true
			})
		}
		scan(info, n, 0)
		return hit
	}
	ast.Inspect(fd.Body, func(n ast.Node) bool {
		rs, ok := n.(*ast.RangeStmt)
		if !ok {
			return true
		}
		if f := core.FieldOf(info, rs.X); f == nil || f.Name() != "fieldMap" {
			return true
		}
		for _, st := range rs.Body.List {
			ifs, ok := st.(*ast.IfStmt)
			if !ok || len(ifs.Body.List) == 0 {
				continue
			}
			if _, isRet := ifs.Body.List[len(ifs.Body.List)-1].(*ast.ReturnStmt); isRet && mentions128(info, ifs.Cond) {
				nonASCII = true
			}
		}
		return true
	})
	rc.Check(nonASCII, "decoder.structDecoder.tryOptimize/cased-non-ascii-names-refused", fd.Pos(), "the optimisation is refused for a member name with a letter outside ASCII (a test against 0x80 in the loop over the names that returns): the bitmaps fold A-Z only, so the key \"É\" would not select the member \"é\"")
	rc.Check(lower, "decoder.structDecoder.tryOptimize/keys-lowercased", fd.Pos(), "keys are lower-cased with strings.ToLower before they are put in the bitmap")
	rc.Check(refuse, "decoder.structDecoder.tryOptimize/non-ascii-refused", fd.Pos(), "the optimisation is refused when strings.ToLower(k) differs from toASCIILower(k) (the decoders fold ASCII only)")
	// the table itself: fold its filling loop (constant bounds) and compare all 256 entries with ASCII lower-casing
	bp := &core.BytePred{P: p}
	filled := false
	for _, f := range p.Funcs("decoder") {
		if f.Name.Name != "init" || f.Body == nil {
			continue
		}
		finfo := p.Info(f)
		assigns := false
		ast.Inspect(f.Body, func(n ast.Node) bool {
			if as, ok := n.(*ast.AssignStmt); ok {
				for _, l := range as.Lhs {
					if ix, ok := core.Unparen(l).(*ast.IndexExpr); ok && core.ObjOf(finfo, ix.X) == tbl {
						assigns = true
					}
				}
			}
			return true
		})
		if !assigns {
			continue
		}
		if !bp.ExecBody(finfo, f.Body) {
			rc.Unknown("decoder.largeToSmallTable/init", f.Pos(), "the init function that fills the table is outside the evaluated subset (loops with constant bounds, assignments, if)")
			return
		}
		filled = true
	}
	if !filled {
		rc.Unknown("decoder.largeToSmallTable/init", token.NoPos, "no init function assigns the table")
		return
	}
	var wrong []string
	for b := int64(0); b < 256; b++ {
		want := b
		if b >= 'A' && b <= 'Z' {
			want = b + 'a' - 'A'
		}
		got, ok := bp.Stores[tbl][b]
		if !ok {
			got = 0
		}
		if got != want && len(wrong) < 6 {
			wrong = append(wrong, fmt.Sprintf("[%q]=%q (want %q)", rune(b), rune(got), rune(want)))
		}
	}
	if len(wrong) == 0 {
		rc.OK("decoder.largeToSmallTable/init", tbl.Pos(), "all 256 entries evaluated: 'A'..'Z' map to 'a'..'z', every other byte to itself")
	} else {
		rc.Bad("decoder.largeToSmallTable/init", tbl.Pos(), "the case-folding table differs from ASCII lower-casing at %s: keys that differ from a field name only in that letter's case stop matching", strings.Join(wrong, ", "))
	}
}

// ---- C15.R6 the bitmap row index stays inside the bitmap ----

// The bitmap has maxKeyLen+1 rows and the last row is all zero, so reading row
// keyIdx is safe as long as the accumulated bit set is tested for zero (with an
// exit) between any two row reads: after maxKeyLen matching characters the
// extra row clears every bit. A path with two row reads and no test in between
// can step past the last row (index out of range panic).
func c15r6(rc *core.RC) {
	p := rc.P
	for _, name := range bitmapDecoders {
		fd := p.Func("decoder", name)
		if fd == nil {
			rc.Unknown("decoder."+name, token.NoPos, "bitmap key decoder not found")
			continue
		}
		rc.Touch("decoder." + name)
		info := p.Info(fd)
		cf := core.BuildCFGFor(fd, info)
		_, cols := rowIndexVars(info, fd)
		// the accumulator: x &= bitmap[row][col]
		var acc types.Object
		ast.Inspect(fd.Body, func(n ast.Node) bool {
			if as, ok := n.(*ast.AssignStmt); ok && as.Tok == token.AND_ASSIGN && len(as.Lhs) == 1 {
				for _, c := range cols {
					if as.Rhs[0] == ast.Expr(c) || (c.Pos() >= as.Rhs[0].Pos() && c.End() <= as.Rhs[0].End()) {
						acc = core.ObjOf(info, as.Lhs[0])
					}
				}
			}
			return true
		})
		if acc == nil || len(cols) == 0 {
			rc.Unknown("decoder."+name+"/row-reads", fd.Pos(), "bitmap row reads or the accumulated bit set not recognised")
			continue
		}
		isAccess := func(n ast.Node) bool {
			for _, c := range cols {
				if n.Pos() <= c.Pos() && c.End() <= n.End() {
					return true
				}
			}
			return false
		}
		// zero test: cond `acc == 0` whose true branch always exits
		isZeroTest := func(b *cfg.Block) bool {
			if len(b.Succs) != 2 || len(b.Nodes) == 0 {
				return false
			}
			cond, ok := b.Nodes[len(b.Nodes)-1].(ast.Expr)
			if !ok {
				return false
			}
			be, ok := core.Unparen(cond).(*ast.BinaryExpr)
			if !ok || be.Op != token.EQL || core.ObjOf(info, be.X) != acc {
				return false
			}
			if v, ok := core.ConstInt(info, be.Y); !ok || v != 0 {
				return false
			}
			// the true branch leaves the function
			for blk := range cf.ReachableFrom(b.Succs[0], map[*cfg.Block]bool{b.Succs[1]: true}) {
				for _, nd := range blk.Nodes {
					if isAccess(nd) {
						return false
					}
				}
			}
			return true
		}
		idx := 0
		for _, blk := range cf.G.Blocks {
			if !cf.Reachable(blk) {
				continue
			}
			for i, nd := range blk.Nodes {
				if !isAccess(nd) {
					continue
				}
				idx++
				key := fmt.Sprintf("decoder.%s/row-read %d/zero-test-before-next-read", name, idx)
				// explore forward from just after this node
				var offender ast.Node
				seen := map[*cfg.Block]bool{}
				var walk func(b *cfg.Block, from int)
				walk = func(b *cfg.Block, from int) {
					if offender != nil {
						return
					}
					for j := from; j < len(b.Nodes); j++ {
						if j == len(b.Nodes)-1 && isZeroTest(b) {
							return // tested: the false edge continues safely, the true edge exits
						}
						if isAccess(b.Nodes[j]) {
							offender = b.Nodes[j]
							return
						}
					}
					for _, s := range b.Succs {
						if !seen[s] {
							seen[s] = true
							walk(s, 0)
						}
					}
				}
				walk(blk, i+1)
				if offender == nil {
					rc.OK(key, nd.Pos(), "every path to the next row read passes `%s == 0` with an exit", acc.Name())
				} else {
					rc.Bad(key, nd.Pos(), "there is a path from this bitmap row read to the next one (%s) without the `%s == 0` exit in between: the row counter can run past the extra all-zero row and index out of range", p.Pos(offender.Pos()), acc.Name())
				}
			}
		}
	}
}

// ---- C15.R7 colliding names disable the bitmap unless they are the same field set ----

func c15r7(rc *core.RC) {
	p := rc.P
	fd := p.Func("decoder", "structDecoder.tryOptimize")
	if fd == nil {
		rc.Unknown("decoder.structDecoder.tryOptimize", token.NoPos, "optimiser not found")
		return
	}
	info := p.Info(fd)
	found := 0
	ast.Inspect(fd.Body, func(n ast.Node) bool {
		ifs, ok := n.(*ast.IfStmt)
		if !ok || ifs.Init == nil {
			return true
		}
		as, ok := ifs.Init.(*ast.AssignStmt)
		if !ok || len(as.Lhs) != 2 || len(as.Rhs) != 1 {
			return true
		}
		ix, ok := core.Unparen(as.Rhs[0]).(*ast.IndexExpr)
		if !ok {
			return true
		}
		mt, ok := info.Types[ix.X].Type.Underlying().(*types.Map)
		if !ok || !strings.HasSuffix(mt.Elem().String(), "decoder.structFieldSet") {
			return true
		}
		prev := core.ObjOf(info, as.Lhs[0])
		// the lookup key must be the lower-cased name; the guarded comparison is the first statement of the body
		inner, ok := firstIf(ifs.Body)
		if !ok {
			return true
		}
		found++
		key := "decoder.structDecoder.tryOptimize/name-collision-guard"
		be, ok := core.Unparen(inner.Cond).(*ast.BinaryExpr)
		ptrs := false
		if ok && be.Op == token.NEQ {
			tx, ty := info.Types[be.X].Type, info.Types[be.Y].Type
			_, px := tx.(*types.Pointer)
			_, py := ty.(*types.Pointer)
			ptrs = px && py && (core.ObjOf(info, be.X) == prev || core.ObjOf(info, be.Y) == prev)
		}
		exits := len(inner.Body.List) > 0
		if exits {
			_, exits = inner.Body.List[len(inner.Body.List)-1].(*ast.ReturnStmt)
		}
		if ptrs && exits {
			rc.OK(key, inner.Pos(), "two names with the same lower-case spelling keep the bitmap only if they are the very same field set (pointer identity), otherwise the optimisation is refused")
		} else {
			rc.Bad(key, inner.Pos(), "when a lower-cased name is already registered the optimisation must be refused unless both entries are the same *structFieldSet; the guard is `%s`, which is not a pointer-identity test: two different fields whose names differ only in case can share one bitmap entry, so one of them can never be selected", core.Src(p.Fset, inner.Cond))
		}
		return true
	})
	if found == 0 {
		rc.Unknown("decoder.structDecoder.tryOptimize/name-collision-guard", fd.Pos(), "no comma-ok lookup of an already registered lower-cased name found")
	}
}

func firstIf(b *ast.BlockStmt) (*ast.IfStmt, bool) {
	if len(b.List) == 0 {
		return nil, false
	}
	i, ok := b.List[0].(*ast.IfStmt)
	return i, ok
}

// ---- C15.R8 (retired) ----
//
// C15.R8 required (*StructCode).removeFieldsByTags to recurse into nested embedded structs. Since fix d6053e1 the
// shallowest-depth rule is decided by getDuplicatedFieldMap from the depth each promoted field carries, and the
// pruning by tags became redundant: the seeded change the rule was written for (C15-encoder-shadowing-not-pruned-
// below-depth-1) no longer changes any output. A rule that alarms on a change that leaves the behaviour as it is must
// not stay: it was removed, and the change is now one of the benign edits every rule has to be silent on.

// ---- C15.R9 the key length of a field set is the byte length of its key ----

// The bitmap matchers count decoded key bytes and compare the count with structFieldSet.keyLen to
// tell a complete key from a prefix of a field name. Every structFieldSet literal must therefore set
// keyLen to int64(len(K)) with K the very expression its key field is set to: a count in characters
// (len([]rune(K))) is smaller for non-ASCII names and lets a proper prefix select the field.
func c15r9(rc *core.RC) {
	p := rc.P
	n := 0
	for _, fd := range p.Funcs("decoder") {
		if fd.Body == nil {
			continue
		}
		info := p.Info(fd)
		fn := p.FuncName(fd)
		k := 0
		ast.Inspect(fd.Body, func(m ast.Node) bool {
			cl, ok := m.(*ast.CompositeLit)
			if !ok {
				return true
			}
			tv := info.Types[cl]
			nt, ok := tv.Type.(*types.Named)
			if !ok || nt.Obj().Name() != "structFieldSet" {
				return true
			}
			var keyE, lenE ast.Expr
			for _, el := range cl.Elts {
				if kv, ok := el.(*ast.KeyValueExpr); ok {
					if id, ok := kv.Key.(*ast.Ident); ok {
						switch id.Name {
						case "key":
							keyE = kv.Value
						case "keyLen":
							lenE = kv.Value
						}
					}
				}
			}
			if keyE == nil && lenE == nil {
				return true
			}
			n++
			k++
			rc.Touch(fn)
			key := fmt.Sprintf("%s/structFieldSet#%d keyLen", fn, k)
			if keyE == nil || lenE == nil {
				rc.Bad(key, cl.Pos(), "a field set is built with only one of key and keyLen")
				return true
			}
			good := false
			if conv, ok := core.Unparen(lenE).(*ast.CallExpr); ok && len(conv.Args) == 1 {
				if c, ok := core.Unparen(conv.Args[0]).(*ast.CallExpr); ok && core.IsBuiltin(info, c, "len") && len(c.Args) == 1 {
					good = types.ExprString(core.Unparen(c.Args[0])) == types.ExprString(core.Unparen(keyE))
				}
			}
			rc.Check(good, key, cl.Pos(), "keyLen is `%s` for key `%s`: it must be the byte length of that same key (the matchers count bytes)", core.Src(p.Fset, lenE), core.Src(p.Fset, keyE))
			return true
		})
	}
	if n < 5 {
		rc.Unknown("decoder/structFieldSet-literals", token.NoPos, "found %d structFieldSet literals with a key", n)
	}
}

// ---- C15.R10 the characters allowed in a tag name are encoding/json's ----

// encoding/json accepts a tag name made of letters, digits and the punctuation
// !#$%&()*+-./:;<=>?@[]^_{|}~ and space; a name with any other character is ignored and the Go field
// name is used. runtime.isValidTag has to allow exactly that punctuation, or a field is encoded and
// looked up under another name than encoding/json's.
func c15r10(rc *core.RC) {
	p := rc.P
	fd := p.Func("runtime", "isValidTag")
	key := "runtime.isValidTag/punctuation-set"
	if fd == nil {
		rc.Unknown(key, token.NoPos, "not found")
		return
	}
	rc.Touch("runtime.isValidTag")
	info := p.Info(fd)
	// the loop over the runes of the name: its body is folded for one rune at a time. A rune is refused when the body
	// returns false for it and allowed when the body runs to its end.
	var loop *ast.RangeStmt
	ast.Inspect(fd.Body, func(m ast.Node) bool {
		if rs, ok := m.(*ast.RangeStmt); ok && loop == nil && rs.Value != nil {
			loop = rs
		}
		return true
	})
	if loop == nil {
		rc.Unknown(key, fd.Pos(), "isValidTag has no loop over the runes of the name")
		return
	}
	c := core.ObjOf(info, loop.Value)
	const punct = "!#$%&()*+-./:;<=>?@[]^_{|}~ "
	// all of ASCII and Latin-1, and samples of every class beyond: letters, digits, marks, symbols, separators
	runes := []rune{}
	for r := rune(0); r < 0x100; r++ {
		runes = append(runes, r)
	}
	runes = append(runes, 0x3b1, 0x416, 0x5d0, 0x4e16, 0x1f600, 0x663, 0x96c, 0xff11, 0x301, 0x20ac, 0x2028, 0x2029, 0x3000, 0xfffd, 0x2160, 0xb2)
	var wrongAllowed, wrongRefused []string
	for _, r := range runes {
		bp := &core.BytePred{P: p}
		retB, retIs, done, ok := bp.ExecList(info, loop.Body.List, core.Bind(c, int64(r)))
		if !ok || (done && !retIs) {
			rc.Unknown(key, loop.Pos(), "the loop body of isValidTag could not be folded for the rune %U", r)
			return
		}
		allowed := !done || retB
		want := strings.ContainsRune(punct, r) || unicode.IsLetter(r) || unicode.IsDigit(r)
		switch {
		case allowed && !want:
			wrongAllowed = append(wrongAllowed, fmt.Sprintf("%q", r))
		case !allowed && want:
			wrongRefused = append(wrongRefused, fmt.Sprintf("%q", r))
		}
	}
	clip := func(xs []string) string {
		if len(xs) > 8 {
			return strings.Join(xs[:8], " ") + fmt.Sprintf(" … (%d)", len(xs))
		}
		return strings.Join(xs, " ")
	}
	rc.Check(len(wrongAllowed) == 0 && len(wrongRefused) == 0, key, loop.Pos(), "a tag name may consist of letters, digits and encoding/json's punctuation %q: evaluated for %d runes (all below U+0100 and samples of every class beyond); wrongly allowed: [%s], wrongly refused: [%s]. A name with a quote or backslash would be written raw into the member key by the no-escape programs", punct, len(runes), clip(wrongAllowed), clip(wrongRefused))
	rc.OK("runtime.isValidTag/letters-and-digits", fd.Pos(), "letters and digits beyond ASCII are classified as unicode.IsLetter / unicode.IsDigit do (part of the evaluation above)")
}

// ---- C15.R11 member shadowing compares names exactly ----

// Whether a member of the outer struct hides a promoted member of an embedded struct is decided by
// runtime.StructTags.ExistsKey, for the encoder (removeFieldsByTags) and the decoder (compileStruct)
// alike. encoding/json's dominance rule is about identical names: "id" does not hide "ID". The test
// inside ExistsKey must be the plain equality of the two names.
func c15r11(rc *core.RC) {
	p := rc.P
	fd := p.Func("runtime", "StructTags.ExistsKey")
	key := "runtime.StructTags.ExistsKey/exact-name-equality"
	if fd == nil {
		rc.Unknown(key, token.NoPos, "not found")
		return
	}
	rc.Touch("runtime.StructTags.ExistsKey")
	info := p.Info(fd)
	var param types.Object
	if len(fd.Type.Params.List) == 1 && len(fd.Type.Params.List[0].Names) == 1 {
		param = info.Defs[fd.Type.Params.List[0].Names[0]]
	}
	nTrue, good := 0, true
	ast.Inspect(fd.Body, func(m ast.Node) bool {
		r, ok := m.(*ast.ReturnStmt)
		if !ok || len(r.Results) != 1 {
			return true
		}
		tv := info.Types[r.Results[0]]
		if tv.Value == nil || tv.Value.String() != "true" {
			return true
		}
		nTrue++
		// the innermost enclosing condition
		path := core.PathTo(fd.Body, r)
		exact := false
		for i := len(path) - 1; i >= 0; i-- {
			ifs, isIf := path[i].(*ast.IfStmt)
			if !isIf {
				continue
			}
			be, isBin := core.Unparen(ifs.Cond).(*ast.BinaryExpr)
			if isBin && be.Op == token.EQL {
				l, r2 := core.Unparen(be.X), core.Unparen(be.Y)
				isKey := func(e ast.Expr) bool { f := core.FieldOf(info, e); return f != nil && f.Name() == "Key" }
				isParam := func(e ast.Expr) bool { return param != nil && core.ObjOf(info, e) == param }
				if (isKey(l) && isParam(r2)) || (isKey(r2) && isParam(l)) {
					exact = true
				}
			}
			break
		}
		if !exact {
			good = false
		}
		return true
	})
	rc.Check(good && nTrue > 0, key, fd.Pos(), "ExistsKey answers true only under `tag.Key == key` (%d true return(s)): names that differ in letter case do not hide each other", nTrue)
	// both compilers decide shadowing through it
	for _, pk := range []string{"encoder", "decoder"} {
		uses := 0
		for _, f := range p.Funcs(pk) {
			if f.Body == nil {
				continue
			}
			ast.Inspect(f.Body, func(m ast.Node) bool {
				if c, ok := m.(*ast.CallExpr); ok && strings.HasSuffix(core.CalleeName(p.Info(f), c), "StructTags.ExistsKey") {
					uses++
				}
				return true
			})
		}
		rc.Check(uses > 0, "runtime.StructTags.ExistsKey/used-by-"+pk, fd.Pos(), "package %s decides member shadowing through ExistsKey (%d call(s))", pk, uses)
	}
}

// ---- C15.R12 among members of one name, the shallowest embedding depth wins ----

// Go's rule for promoted fields: of several fields with the same JSON name the one at the
// shallowest embedding depth is used; only fields at that depth can cancel each other (or be told
// apart by a tag). Both compilers therefore have to know each candidate's depth. The rule checks
// that (1) the conflict resolvers (encoder getDuplicatedFieldMap, decoder filterDuplicatedFields)
// compare the depth of the candidates before they compare anything else, and (2) a promoted
// field's depth is its depth in the embedded struct plus one (decoder: every structFieldSet built
// from an embedded struct's field map; encoder: the recursive walk passes depth+1).
func c15r12(rc *core.RC) {
	p := rc.P
	isDepth := func(info *types.Info, e ast.Expr) bool {
		f := core.FieldOf(info, e)
		return f != nil && f.Name() == "depth"
	}
	comparesDepth := func(fd *ast.FuncDecl) bool {
		info := p.Info(fd)
		found := false
		// locals that hold a depth: assigned from an expression that reads a depth field (by role, not by name)
		depthLocal := map[types.Object]bool{}
		ast.Inspect(fd.Body, func(m ast.Node) bool {
			as, ok := m.(*ast.AssignStmt)
			if !ok || len(as.Lhs) != len(as.Rhs) {
				return true
			}
			for i, l := range as.Lhs {
				reads := false
				ast.Inspect(as.Rhs[i], func(k ast.Node) bool {
					if e, ok := k.(ast.Expr); ok && isDepth(info, e) {
						reads = true
					}
					return true
				})
				if o := core.ObjOf(info, l); o != nil && reads {
					depthLocal[o] = true
				}
			}
			return true
		})
		ast.Inspect(fd.Body, func(m ast.Node) bool {
			be, ok := m.(*ast.BinaryExpr)
			if !ok {
				return true
			}
			switch be.Op {
			case token.LSS, token.GTR, token.LEQ, token.GEQ, token.EQL, token.NEQ:
				l := isDepth(info, be.X) || depthLocal[core.ObjOf(info, be.X)]
				r := isDepth(info, be.Y) || depthLocal[core.ObjOf(info, be.Y)]
				if (isDepth(info, be.X) || isDepth(info, be.Y)) && l && r {
					found = true
				}
			}
			return true
		})
		return found
	}
	for _, spec := range [][2]string{{"encoder", "Compiler.getDuplicatedFieldMap"}, {"decoder", "filterDuplicatedFields"}} {
		fd := p.Func(spec[0], spec[1])
		key := spec[0] + "." + spec[1] + "/compares-depth"
		if fd == nil {
			rc.Unknown(key, token.NoPos, "conflict resolver not found")
			continue
		}
		rc.Touch(p.FuncName(fd))
		rc.Check(comparesDepth(fd), key, fd.Pos(), "the resolver of same-named members compares the embedding depth of the candidates: a deeper field never cancels a shallower one")
	}
	// decoder: promoted field sets carry inner depth + 1
	if fd := p.Func("decoder", "compileStruct"); fd == nil {
		rc.Unknown("decoder.compileStruct", token.NoPos, "not found")
	} else {
		info := p.Info(fd)
		rc.Touch("decoder.compileStruct")
		n := 0
		ast.Inspect(fd.Body, func(m ast.Node) bool {
			rs, ok := m.(*ast.RangeStmt)
			if !ok || rs.Value == nil {
				return true
			}
			// range over <x>.fieldMap or <x>.promotedFields()
			if isProm, _ := promotionRange(p, info, rs); !isProm {
				return true
			}
			inner := core.ObjOf(info, rs.Value)
			ast.Inspect(rs.Body, func(x ast.Node) bool {
				cl, isLit := x.(*ast.CompositeLit)
				if !isLit {
					return true
				}
				tv, has := info.Types[cl]
				if !has || !strings.HasSuffix(tv.Type.String(), "structFieldSet") {
					return true
				}
				n++
				good := false
				for _, el := range cl.Elts {
					kv, isKV := el.(*ast.KeyValueExpr)
					if !isKV {
						continue
					}
					if id, isIdent := kv.Key.(*ast.Ident); !isIdent || id.Name != "depth" {
						continue
					}
					if be, isBin := core.Unparen(kv.Value).(*ast.BinaryExpr); isBin && be.Op == token.ADD {
						if v, isConst := core.ConstInt(info, be.Y); isConst && v == 1 && isDepth(info, be.X) {
							if sel, isSel := core.Unparen(be.X).(*ast.SelectorExpr); isSel && core.ObjOf(info, sel.X) == inner {
								good = true
							}
						}
					}
				}
				rc.Check(good, fmt.Sprintf("decoder.compileStruct/promoted-field#%d depth", n), cl.Pos(), "a field set promoted from an embedded struct has depth = its depth there + 1")
				return true
			})
			return true
		})
		if n < 2 {
			rc.Unknown("decoder.compileStruct/promoted-fields", fd.Pos(), "found %d promoted field-set literals (2 confirmed)", n)
		}
	}
	// encoder: the walk over embedded structs passes depth+1 downwards
	if fd := p.Func("encoder", "Compiler.getFieldMapFromAnonymousParent"); fd == nil {
		rc.Unknown("encoder.getFieldMapFromAnonymousParent", token.NoPos, "not found")
	} else {
		info := p.Info(fd)
		rc.Touch(p.FuncName(fd))
		deeper, assigns := false, false
		// the variables a depth field is assigned from (`x.depth = d`, `depth: d` in a literal)
		depthSources := map[types.Object]bool{}
		ast.Inspect(fd.Body, func(m ast.Node) bool {
			switch x := m.(type) {
			case *ast.AssignStmt:
				if len(x.Lhs) == len(x.Rhs) {
					for i, l := range x.Lhs {
						if isDepth(info, l) {
							if o := core.ObjOf(info, x.Rhs[i]); o != nil {
								depthSources[o] = true
							}
						}
					}
				}
			case *ast.KeyValueExpr:
				if id, ok := x.Key.(*ast.Ident); ok {
					if f, ok := info.Uses[id].(*types.Var); ok && f.IsField() && f.Name() == "depth" {
						if o := core.ObjOf(info, x.Value); o != nil {
							depthSources[o] = true
						}
					}
				}
			}
			return true
		})
		ast.Inspect(fd.Body, func(m ast.Node) bool {
			switch x := m.(type) {
			case *ast.CallExpr:
				for _, a := range x.Args {
					if be, isBin := core.Unparen(a).(*ast.BinaryExpr); isBin && be.Op == token.ADD {
						if v, isConst := core.ConstInt(info, be.Y); isConst && v == 1 {
							// the recursive call passes its own parameter plus one, and that parameter is what the depth field is given
							if o := core.ObjOf(info, be.X); o != nil && depthSources[o] {
								deeper = true
							}
						}
					}
				}
			case *ast.AssignStmt:
				for _, l := range x.Lhs {
					if isDepth(info, l) {
						assigns = true
					}
				}
			}
			return true
		})
		rc.Check(deeper && assigns, "encoder.getFieldMapFromAnonymousParent/depth-propagated", fd.Pos(), "fields of an embedded struct are given the current depth and deeper embedded structs are walked with depth+1")
	}
}

// ---- C15.R13 a key that is no field's exact name is looked up case-insensitively ----

// Structs with more than 16 fields (and those whose names collide case-insensitively) resolve an object key through the
// name map of the struct decoder. Every function that looks a run-time key up in structDecoder.fieldMap must, when
// that lookup can miss, fall back to a lookup under the lower-cased key (exact match first, then case-insensitive).
func c15r13(rc *core.RC) {
	p := rc.P
	n := 0
	isFieldSetMap := func(info *types.Info, e ast.Expr) bool {
		f := core.FieldOf(info, e)
		if f == nil {
			return false
		}
		m, ok := f.Type().Underlying().(*types.Map)
		return ok && strings.HasSuffix(m.Elem().String(), "structFieldSet")
	}
	for _, fd := range p.Funcs("decoder") {
		if fd.Body == nil {
			continue
		}
		info := p.Info(fd)
		// run-time lookups: d.fieldMap[k] read (not assigned) with k a variable that is not the key of a range over the map
		rangeKeys := map[types.Object]bool{}
		ast.Inspect(fd.Body, func(m ast.Node) bool {
			if rs, ok := m.(*ast.RangeStmt); ok && rs.Key != nil {
				if o := core.ObjOf(info, rs.Key); o != nil {
					rangeKeys[o] = true
				}
			}
			return true
		})
		assigned := map[ast.Expr]bool{}
		ast.Inspect(fd.Body, func(m ast.Node) bool {
			if as, ok := m.(*ast.AssignStmt); ok {
				for _, l := range as.Lhs {
					assigned[core.Unparen(l)] = true
				}
			}
			return true
		})
		var exact []*ast.IndexExpr
		folded := map[types.Object]bool{} // key variables that are also looked up lower-cased
		ast.Inspect(fd.Body, func(m ast.Node) bool {
			ix, ok := m.(*ast.IndexExpr)
			if !ok || assigned[ix] || !isFieldSetMap(info, ix.X) {
				return true
			}
			switch k := core.Unparen(ix.Index).(type) {
			case *ast.Ident:
				// a local that holds the lower-cased key
				lowered := false
				ast.Inspect(fd.Body, func(y ast.Node) bool {
					as, isAs := y.(*ast.AssignStmt)
					if !isAs || len(as.Lhs) != 1 || len(as.Rhs) != 1 || core.ObjOf(info, as.Lhs[0]) != core.ObjOf(info, k) {
						return true
					}
					if c, isCall := core.Unparen(as.Rhs[0]).(*ast.CallExpr); isCall && len(c.Args) == 1 {
						if name := core.CalleeName(info, c); name == "strings.ToLower" || name == "decoder.toASCIILower" {
							if src := core.ObjOf(info, c.Args[0]); src != nil {
								folded[src] = true
								lowered = true
							}
						}
					}
					return true
				})
				if lowered {
					return true
				}
				if o := core.ObjOf(info, k); o != nil && !rangeKeys[o] {
					if _, isVar := o.(*types.Var); isVar && o.Parent() != o.Pkg().Scope() {
						exact = append(exact, ix)
					}
				}
			case *ast.CallExpr:
				name := core.CalleeName(info, k)
				if (name == "strings.ToLower" || name == "decoder.toASCIILower") && len(k.Args) == 1 {
					if o := core.ObjOf(info, k.Args[0]); o != nil {
						folded[o] = true
					}
				}
			}
			return true
		})
		for i, ix := range exact {
			o := core.ObjOf(info, ix.Index)
			// a lookup whose key was itself produced by lower-casing is the fallback, not an exact lookup
			isLowered := false
			ast.Inspect(fd.Body, func(m ast.Node) bool {
				if as, ok := m.(*ast.AssignStmt); ok && len(as.Lhs) == 1 && len(as.Rhs) == 1 && core.ObjOf(info, as.Lhs[0]) == o {
					if c, isCall := core.Unparen(as.Rhs[0]).(*ast.CallExpr); isCall {
						if name := core.CalleeName(info, c); name == "strings.ToLower" || name == "decoder.toASCIILower" {
							isLowered = true
						}
					}
				}
				return true
			})
			if isLowered {
				continue
			}
			n++
			fn := p.FuncName(fd)
			rc.Touch(fn)
			key := fmt.Sprintf("%s/key-lookup#%d case-insensitive-fallback", fn, i+1)
			rc.Check(folded[o], key, ix.Pos(), "the key looked up in %s is also looked up lower-cased when the exact name misses (encoding/json: exact match first, then case-insensitive); without it a struct with more than 16 fields ignores {\"NAME\":…} for a field named name", core.Src(p.Fset, ix.X))
		}
	}
	if n < 1 {
		rc.Unknown("decoder/field-map-lookups", token.NoPos, "no run-time lookup of an object key in a struct decoder's name map found (confirmed: structDecoder.lookupField)")
	}
}

// (C15.R14, the first-win field counter counts distinct fields, was retired in round 13: fix for the FirstWin exit
// removed the counter and the early exit it guarded.)

// ---- C15.R15 a field is always registered under its exact name ----

// The name map of a struct decoder holds every field under its exact JSON name and, first come first served, under the
// lower-cased name. "Exact match first" needs the exact entry to be unconditional: when it is subject to the same
// first-win test as the alias, the alias an earlier field left under a later field's exact name wins, and the key
// `name` selects the field Name.
func c15r15(rc *core.RC) {
	p := rc.P
	fd := p.Func("decoder", "compileStruct")
	key := "decoder.compileStruct/exact-name-always-registered"
	if fd == nil || fd.Body == nil {
		rc.Unknown(key, token.NoPos, "compileStruct not found")
		return
	}
	rc.Touch("decoder.compileStruct")
	info := p.Info(fd)
	// the name map: the map[string]*structFieldSet handed to newStructDecoder
	isNameMap := func(e ast.Expr) bool {
		tv, has := info.Types[e]
		if !has {
			return false
		}
		m, ok := tv.Type.Underlying().(*types.Map)
		return ok && strings.HasSuffix(m.Elem().String(), "structFieldSet") && m.Key().String() == "string"
	}
	// assignments M[K] = set where K is exactly <set>.key
	type store struct {
		as      *ast.AssignStmt
		guarded bool
	}
	var exact []store
	var walk func(list []ast.Stmt, guarded bool, loopVars map[types.Object]bool)
	walk = func(list []ast.Stmt, guarded bool, loopVars map[types.Object]bool) {
		for _, st := range list {
			switch x := st.(type) {
			case *ast.AssignStmt:
				if len(x.Lhs) != 1 || len(x.Rhs) != 1 {
					continue
				}
				ix, ok := core.Unparen(x.Lhs[0]).(*ast.IndexExpr)
				if !ok || !isNameMap(ix.X) {
					continue
				}
				if sel, isSel := core.Unparen(ix.Index).(*ast.SelectorExpr); isSel && sel.Sel.Name == "key" && core.ObjOf(info, sel.X) == core.ObjOf(info, x.Rhs[0]) {
					exact = append(exact, store{x, guarded})
				}
			case *ast.IfStmt:
				// a test of the map's own contents guards what is below it
				g := guarded
				ast.Inspect(x, func(m ast.Node) bool {
					if ix, ok := m.(*ast.IndexExpr); ok && isNameMap(ix.X) && m.Pos() < x.Body.Pos() {
						g = true
					}
					return true
				})
				walk(x.Body.List, g, loopVars)
				if e, ok := x.Else.(*ast.BlockStmt); ok {
					walk(e.List, g, loopVars)
				}
			case *ast.RangeStmt:
				walk(x.Body.List, guarded, loopVars)
			case *ast.ForStmt:
				walk(x.Body.List, guarded, loopVars)
			case *ast.BlockStmt:
				walk(x.List, guarded, loopVars)
			}
		}
	}
	walk(fd.Body.List, false, nil)
	unguarded := 0
	for _, s := range exact {
		if !s.guarded {
			unguarded++
		}
	}
	switch {
	case unguarded > 0:
		rc.OK(key, exact[0].as.Pos(), "every field is entered into the name map under its exact key without a test of what the map already holds (%d store(s))", unguarded)
	case len(exact) > 0:
		rc.Bad(key, exact[0].as.Pos(), "the entry under a field's exact key is only made when the map does not hold that key yet: the lower-cased alias of an earlier field (Name -> name) keeps the slot of a later field whose exact key is name, so {\"Name\":1,\"name\":2} puts 2 into the field Name and nothing into name")
	default:
		rc.Bad(key, fd.Pos(), "no store `nameMap[set.key] = set` found in compileStruct: fields are not registered under their exact key (exact match first cannot hold when keys differ only in case)")
	}
}

// ---- C15.R16 / C01.R13 / C03.R5 embedded structs in the encoder's compiler ----

// anonymousPredicate returns the function the encoder's compiler uses to decide that a field is a flattened embedded
// struct (the callee in `isAnonymous: F(tag)` of the StructFieldCode literal), or nil.
func anonymousPredicate(p *core.Program) *types.Func {
	fd := p.Func("encoder", "Compiler.structFieldCode")
	if fd == nil || fd.Body == nil {
		return nil
	}
	info := p.Info(fd)
	var f *types.Func
	ast.Inspect(fd.Body, func(m ast.Node) bool {
		kv, ok := m.(*ast.KeyValueExpr)
		if !ok {
			return true
		}
		if id, isIdent := kv.Key.(*ast.Ident); isIdent && id.Name == "isAnonymous" {
			if c, isCall := core.Unparen(kv.Value).(*ast.CallExpr); isCall {
				f = core.Callee(info, c)
			}
		}
		return true
	})
	return f
}

// C15.R16: the names with which an outer struct hides promoted members are the names of its own members. A flattened
// embedded struct has no member name: its tag must not be among those handed to removeFieldsByTags.
func c15r16(rc *core.RC) {
	p := rc.P
	fd := p.Func("encoder", "Compiler.structCode")
	if fd == nil || fd.Body == nil {
		rc.Unknown("encoder.(*Compiler).structCode/hiding-names", token.NoPos, "structCode not found")
		return
	}
	rc.Touch("encoder.(*Compiler).structCode")
	info := p.Info(fd)
	pred := anonymousPredicate(p)
	// the full tag list: what the field loop ranges over
	full := map[types.Object]bool{}
	ast.Inspect(fd.Body, func(m ast.Node) bool {
		if rs, ok := m.(*ast.RangeStmt); ok {
			hasFieldCode := false
			ast.Inspect(rs.Body, func(k ast.Node) bool {
				if c, isCall := k.(*ast.CallExpr); isCall && strings.HasSuffix(core.CalleeName(info, c), "structFieldCode") {
					hasFieldCode = true
				}
				return true
			})
			if hasFieldCode {
				if o := core.ObjOf(info, rs.X); o != nil {
					full[o] = true
				}
			}
		}
		return true
	})
	n := 0
	ast.Inspect(fd.Body, func(m ast.Node) bool {
		c, ok := m.(*ast.CallExpr)
		if !ok || len(c.Args) != 1 {
			return true
		}
		sel, isSel := c.Fun.(*ast.SelectorExpr)
		if !isSel || sel.Sel.Name != "removeFieldsByTags" {
			return true
		}
		n++
		key := fmt.Sprintf("encoder.(*Compiler).structCode/removeFieldsByTags#%d own-member-names-only", n)
		arg := core.ObjOf(info, c.Args[0])
		if arg == nil {
			rc.Unknown(key, c.Pos(), "argument is not a variable")
			return true
		}
		if full[arg] {
			rc.Bad(key, c.Pos(), "the members of an embedded struct are pruned with the tags of every field of the outer struct, the embedding itself included: an embedded struct named like one of its own members hides that member (struct{ PBase } with type PBase struct{ PBase int } is encoded as {})")
			return true
		}
		// every append to the list is under the negated predicate
		okAll, any := true, false
		ast.Inspect(fd.Body, func(k ast.Node) bool {
			ifs, isIf := k.(*ast.IfStmt)
			if !isIf {
				return true
			}
			for _, st := range ifs.Body.List {
				as, isAs := st.(*ast.AssignStmt)
				if !isAs || len(as.Lhs) != 1 || core.ObjOf(info, as.Lhs[0]) != arg {
					continue
				}
				any = true
				u, isNot := core.Unparen(ifs.Cond).(*ast.UnaryExpr)
				if !isNot || u.Op != token.NOT {
					okAll = false
					continue
				}
				pc, isCall := core.Unparen(u.X).(*ast.CallExpr)
				if !isCall || pred == nil || core.Callee(info, pc) != pred {
					okAll = false
				}
			}
			return true
		})
		rc.Check(any && okAll, key, c.Pos(), "the list of hiding names is filled only with tags for which %s, the test that makes a field a flattened embedded struct, is false", func() string {
			if pred != nil {
				return pred.Name()
			}
			return "the anonymity predicate"
		}())
		return true
	})
	if n < 1 {
		rc.OK("encoder.(*Compiler).structCode/hiding-names", fd.Pos(), "structCode does not prune embedded structs by the outer struct's tags at all: which same-named member wins is decided by embedding depth (C15.R12, C15.R18)")
	}
}

// C01.R13: options on the embedding of a flattened struct have no effect (encoding/json ignores them). The omitempty
// and string variants of the struct field opcodes write the member key without looking at the anonymous flag, so a
// flattened embedded struct must not reach them: in structFieldCode the tag kept for such a field has both options
// cleared.
func c01r13(rc *core.RC) {
	p := rc.P
	fd := p.Func("encoder", "Compiler.structFieldCode")
	key := "encoder.(*Compiler).structFieldCode/embedded-struct-has-no-options"
	if fd == nil || fd.Body == nil {
		rc.Unknown(key, token.NoPos, "structFieldCode not found")
		return
	}
	rc.Touch("encoder.(*Compiler).structFieldCode")
	info := p.Info(fd)
	found := false
	var at token.Pos
	var guard ast.Expr
	ast.Inspect(fd.Body, func(m ast.Node) bool {
		ifs, ok := m.(*ast.IfStmt)
		if !ok || found {
			return true
		}
		mentions := false
		ast.Inspect(ifs.Cond, func(k ast.Node) bool {
			if sel, isSel := k.(*ast.SelectorExpr); isSel && sel.Sel.Name == "isAnonymous" {
				mentions = true
			}
			return true
		})
		if !mentions {
			return true
		}
		cleared := map[string]types.Object{}
		var stored types.Object
		for _, st := range ifs.Body.List {
			as, isAs := st.(*ast.AssignStmt)
			if !isAs || len(as.Lhs) != 1 || len(as.Rhs) != 1 {
				continue
			}
			if sel, isSel := core.Unparen(as.Lhs[0]).(*ast.SelectorExpr); isSel {
				if v := core.ConstValue(info, as.Rhs[0]); v != nil && v.String() == "false" && (sel.Sel.Name == "IsOmitEmpty" || sel.Sel.Name == "IsString") {
					cleared[sel.Sel.Name] = core.ObjOf(info, sel.X)
				}
				if sel.Sel.Name == "tag" {
					if u, isAddr := core.Unparen(as.Rhs[0]).(*ast.UnaryExpr); isAddr && u.Op == token.AND {
						stored = core.ObjOf(info, u.X)
					}
				}
			}
		}
		if stored != nil && cleared["IsOmitEmpty"] == stored && cleared["IsString"] == stored {
			found = true
			at = ifs.Pos()
			guard = ifs.Cond
		}
		return true
	})
	if found {
		rc.OK(key, at, "for a flattened embedded struct the tag kept in the field code has omitempty and string cleared")
		// the clearing stands for every embedded field: each conjunct of its guard is the anonymity itself or speaks
		// only of the two options (a pointer to a struct is flattened like the struct, and the omitempty variants of
		// the field opcodes write its name in front of its members)
		key2 := "encoder.(*Compiler).structFieldCode/every-embedded-field-loses-its-options"
		var extra []string
		for _, c := range conjuncts(guard) {
			anon, onlyOptions, other := false, true, false
			ast.Inspect(c, func(k ast.Node) bool {
				switch x := k.(type) {
				case *ast.SelectorExpr:
					switch x.Sel.Name {
					case "isAnonymous":
						anon = true
					case "IsOmitEmpty", "IsString":
					default:
						onlyOptions, other = false, true
					}
					return false
				case *ast.CallExpr:
					if core.CalleeName(info, x) == "encoder.isEmbeddedStructTag" {
						anon = true
						return false
					}
					onlyOptions, other = false, true
				case *ast.BasicLit:
					onlyOptions = false
				}
				return true
			})
			if anon && !other {
				continue
			}
			if onlyOptions {
				continue
			}
			extra = append(extra, core.Src(p.Fset, c))
		}
		if len(extra) == 0 {
			rc.OK(key2, at, "the guard %s leaves no embedded field out", core.Src(p.Fset, guard))
		} else {
			rc.Bad(key2, at, "the options of an embedding are cleared only where also %s holds: the other embedded fields reach the omitempty / string variants of the field opcodes, which write the embedding's name and then the members of the embedded struct (struct{ *In `json:\",omitempty\"` } with a non-nil pointer gives {\"In\":\"X\":2})", strings.Join(extra, " && "))
		}
		return
	}
	// the other way to get there: the opcode choosers look at anonymity themselves
	alt := 0
	for _, name := range []string{"optimizeStructHeader", "optimizeStructField"} {
		if g := p.Func("encoder", name); g != nil && g.Body != nil {
			ast.Inspect(g.Body, func(k ast.Node) bool {
				if id, isIdent := k.(*ast.Ident); isIdent && strings.Contains(strings.ToLower(id.Name), "anonymous") {
					alt++
					return false
				}
				return true
			})
		}
	}
	if alt >= 2 {
		rc.OK(key, fd.Pos(), "optimizeStructHeader and optimizeStructField look at the field's anonymity before choosing an omitempty/string opcode")
		return
	}
	rc.Bad(key, fd.Pos(), "a flattened embedded struct keeps the options of its embedding (json:\",omitempty\"): the omitempty/string variants of the struct field opcodes write the embedding's name as a member key and the members of the embedded struct after it, without a value in between (struct{ A int; In `json:\",omitempty\"`; B int } gives {\"A\":1,\"In\":\"X\":2,\"B\":3})")
}

// C03.R5: an embedded struct that leads back to a struct it is embedded in (type T struct{ *T; N int }) has no program
// of its own to flatten: every member it could add is hidden by the same member at the shallower depth. Where the
// compiler walks embedded structs (structCode, removeFieldsByTags) such a field has to be dropped.
func c03r5(rc *core.RC) {
	p := rc.P
	n := 0
	for _, name := range []string{"Compiler.structCode", "StructCode.removeFieldsByTags"} {
		fd := p.Func("encoder", name)
		key := "encoder." + name + "/recursive-embedded-struct-dropped"
		if fd == nil || fd.Body == nil {
			rc.Unknown(key, token.NoPos, "not found")
			continue
		}
		n++
		rc.Touch(p.FuncName(fd))
		// inside the loop over fields: if <struct of the anonymous field>.isRecursive { continue } before the field is kept
		found := false
		var at token.Pos
		ast.Inspect(fd.Body, func(m ast.Node) bool {
			ifs, ok := m.(*ast.IfStmt)
			if !ok || found {
				return true
			}
			positive := false
			var conj func(e ast.Expr)
			conj = func(e ast.Expr) {
				e = core.Unparen(e)
				if be, isBin := e.(*ast.BinaryExpr); isBin && be.Op == token.LAND {
					conj(be.X)
					conj(be.Y)
					return
				}
				if sel, isSel := e.(*ast.SelectorExpr); isSel && sel.Sel.Name == "isRecursive" {
					positive = true
				}
			}
			conj(ifs.Cond)
			if !positive || len(ifs.Body.List) == 0 {
				return true
			}
			if br, isBr := ifs.Body.List[len(ifs.Body.List)-1].(*ast.BranchStmt); isBr && br.Tok == token.CONTINUE {
				found = true
				at = ifs.Pos()
			}
			return true
		})
		rc.Check(found, key, func() token.Pos {
			if found {
				return at
			}
			return fd.Pos()
		}(), "an embedded struct whose code is marked recursive is skipped (continue) in the loop over the fields: a struct that embeds itself adds no member and no opcode (type E struct{ *E; N int } gave {{null,\"N\":1},\"N\":2}, which is not JSON)")
	}
	if n < 2 {
		rc.Unknown("encoder/embedded-struct-walkers", token.NoPos, "found %d of structCode and removeFieldsByTags", n)
	}
}

// ---- C15.R17 a field's tagged-ness is fixed when the field is compiled ----

// Whether a member name comes from a tag decides which of several same-named fields at one embedding depth wins
// (encoding/json: the tagged one, at every depth). The flag is set where the field code is made; nothing may clear
// or change it later (the encoder used to clear it for fields promoted through two or more embeddings).
func c15r17(rc *core.RC) {
	p := rc.P
	n := 0
	bad := false
	for _, fd := range p.Funcs("encoder") {
		if fd.Body == nil {
			continue
		}
		info := p.Info(fd)
		fn := p.FuncName(fd)
		ast.Inspect(fd.Body, func(m ast.Node) bool {
			switch x := m.(type) {
			case *ast.KeyValueExpr:
				if id, ok := x.Key.(*ast.Ident); ok && id.Name == "isTaggedKey" {
					if f, isField := core.ObjOf(info, id).(*types.Var); isField && f.IsField() {
						n++
					}
				}
			case *ast.AssignStmt:
				for _, l := range x.Lhs {
					sel, ok := core.Unparen(l).(*ast.SelectorExpr)
					if !ok || sel.Sel.Name != "isTaggedKey" {
						continue
					}
					if f := core.FieldOf(info, sel); f == nil || !strings.HasSuffix(f.Type().String(), "bool") {
						continue
					}
					n++
					bad = true
					rc.Touch(fn)
					rc.Bad(fn+"/isTaggedKey-reassigned", x.Pos(), "%s assigns to isTaggedKey of an existing field code (%s): the tagged field no longer wins over untagged fields of the same name, so both are dropped (struct{ A; B } with A and B embedding structs that hold X tagged and X untagged encodes as {} instead of {\"X\":…})", fn, core.Src(p.Fset, x))
				}
			}
			return true
		})
	}
	if n < 1 {
		rc.Unknown("encoder/isTaggedKey", token.NoPos, "the field isTaggedKey of the encoder's field codes was not found")
		return
	}
	if !bad {
		rc.OK("encoder/isTaggedKey-set-once", token.NoPos, "isTaggedKey is set in the literals that make a field code and assigned nowhere else")
	}
}

// ---- C15.R18 depth first, then tags ----

// Go's rule for same-named fields has an order: the fields at the shallowest embedding depth hide the deeper ones, and
// only among the fields AT that depth a tagged one is preferred. In both resolvers (encoder getDuplicatedFieldMap,
// decoder filterDuplicatedFields) the step that looks at the tags (a call of a function that reads isTaggedKey, or a
// read of isTaggedKey itself) has to work on a list that was selected by depth: a list variable that is appended to
// only under a comparison of a candidate's depth with the minimum depth.
func c15r18(rc *core.RC) {
	p := rc.P
	readsTagged := func(fd *ast.FuncDecl) bool {
		if fd == nil || fd.Body == nil {
			return false
		}
		found := false
		ast.Inspect(fd.Body, func(m ast.Node) bool {
			if sel, ok := m.(*ast.SelectorExpr); ok && sel.Sel.Name == "isTaggedKey" {
				found = true
			}
			return true
		})
		return found
	}
	n := 0
	for _, spec := range [][2]string{{"encoder", "Compiler.getDuplicatedFieldMap"}, {"decoder", "filterDuplicatedFields"}} {
		fd := p.Func(spec[0], spec[1])
		base := spec[0] + "." + spec[1]
		if fd == nil || fd.Body == nil {
			rc.Unknown(base+"/tag-step", token.NoPos, "conflict resolver not found")
			continue
		}
		info := p.Info(fd)
		rc.Touch(p.FuncName(fd))
		// list variables selected by depth: every append to them stands under a depth comparison
		depthCond := func(e ast.Expr) bool {
			found := false
			ast.Inspect(e, func(m ast.Node) bool {
				if f := core.FieldOf(info, nodeExpr(m)); f != nil && f.Name() == "depth" {
					found = true
				}
				return true
			})
			return found
		}
		appendsUnder := map[types.Object][]bool{}
		var walk func(list []ast.Stmt, underDepth bool)
		walk = func(list []ast.Stmt, underDepth bool) {
			for _, st := range list {
				switch x := st.(type) {
				case *ast.AssignStmt:
					if len(x.Lhs) == 1 && len(x.Rhs) == 1 {
						if c, ok := core.Unparen(x.Rhs[0]).(*ast.CallExpr); ok && core.IsBuiltin(info, c, "append") {
							if o := core.ObjOf(info, x.Lhs[0]); o != nil {
								appendsUnder[o] = append(appendsUnder[o], underDepth)
							}
						}
					}
				case *ast.IfStmt:
					d := underDepth || depthCond(x.Cond)
					walk(x.Body.List, d)
					// statements after `if depth > min { …; continue }` in the same list are selected by depth too
					switch e := x.Else.(type) {
					case *ast.BlockStmt:
						walk(e.List, d)
					}
					if depthCond(x.Cond) && len(x.Body.List) > 0 {
						if br, isBr := x.Body.List[len(x.Body.List)-1].(*ast.BranchStmt); isBr && br.Tok == token.CONTINUE {
							underDepth = true
						}
					}
				case *ast.RangeStmt:
					walk(x.Body.List, false)
				case *ast.ForStmt:
					walk(x.Body.List, false)
				case *ast.BlockStmt:
					walk(x.List, underDepth)
				}
			}
		}
		walk(fd.Body.List, false)
		byDepth := func(o types.Object) bool {
			us := appendsUnder[o]
			if len(us) == 0 {
				return false
			}
			for _, u := range us {
				if !u {
					return false
				}
			}
			return true
		}
		// the tag steps
		k := 0
		ast.Inspect(fd.Body, func(m ast.Node) bool {
			c, ok := m.(*ast.CallExpr)
			if !ok || len(c.Args) != 1 {
				return true
			}
			callee := core.Callee(info, c)
			if callee == nil || !readsTagged(p.DeclOf(callee)) {
				return true
			}
			n++
			k++
			key := fmt.Sprintf("%s/tag-step#%d works-on-the-shallowest-fields", base, k)
			arg := core.ObjOf(info, c.Args[0])
			rc.Check(arg != nil && byDepth(arg), key, c.Pos(), "%s, which prefers tagged fields, is applied to %s, a list filled only with the candidates at the minimum embedding depth: applied to all candidates, a deeper tagged field beats a shallower untagged one (T{A;B}, A{X int}, B{C}, C{Y int `json:\"X\"`}: the key X would go to B.C.Y instead of A.X)", callee.Name(), core.Src(p.Fset, c.Args[0]))
			return true
		})
	}
	if n < 2 {
		rc.Unknown("resolvers/tag-steps", token.NoPos, "found %d tag-preference steps in the two conflict resolvers (confirmed: one each)", n)
	}
}

func nodeExpr(n ast.Node) ast.Expr {
	if e, ok := n.(ast.Expr); ok {
		return e
	}
	return nil
}

// ---- C15.R19 a field counts as tagged only when its tag name is taken ----

// encoding/json ranks a field as "tagged" (it wins over same-named untagged fields at the same depth) only when the
// tag supplied its name; a tag whose name part is invalid is ignored and the field competes under its Go name as an
// untagged one. In StructTagFromField every `IsTaggedKey = true` therefore stands under the isValidTag test, next to
// the assignment of the key name from the tag.
func c15r19(rc *core.RC) {
	p := rc.P
	fd := p.Func("runtime", "StructTagFromField")
	if fd == nil || fd.Body == nil {
		rc.Unknown("runtime.StructTagFromField", token.NoPos, "function not found")
		return
	}
	info := p.Info(fd)
	fn := p.FuncName(fd)
	rc.Touch(fn)
	n := 0
	ast.Inspect(fd.Body, func(x ast.Node) bool {
		as, ok := x.(*ast.AssignStmt)
		if !ok || len(as.Lhs) != 1 || len(as.Rhs) != 1 {
			return true
		}
		sel, ok := core.Unparen(as.Lhs[0]).(*ast.SelectorExpr)
		if !ok || sel.Sel.Name != "IsTaggedKey" {
			return true
		}
		if id, ok := core.Unparen(as.Rhs[0]).(*ast.Ident); ok && id.Name == "false" {
			return true
		}
		n++
		key := fmt.Sprintf("%s/IsTaggedKey#%d only-for-a-valid-tag-name", fn, n)
		under := false
		for _, c := range condChainNodes(fd, as) {
			if !c.pos {
				continue
			}
			for _, cj := range conjuncts(c.cond) {
				if call, ok := core.Unparen(cj).(*ast.CallExpr); ok && strings.HasSuffix(core.CalleeName(info, call), "isValidTag") {
					under = true
				}
			}
		}
		if id, ok := core.Unparen(as.Rhs[0]).(*ast.Ident); !ok || id.Name != "true" {
			// computed value: it has to be the validity test itself
			call, isCall := core.Unparen(as.Rhs[0]).(*ast.CallExpr)
			under = under || (isCall && strings.HasSuffix(core.CalleeName(info, call), "isValidTag"))
		}
		rc.Check(under, key, as.Pos(), "the field is marked as tagged only under the isValidTag test of the tag's name part: a field whose tag name is invalid keeps its Go name and ranks as untagged, as in encoding/json (marked regardless, it beats or cancels same-named fields it should lose to or share with)")
		return true
	})
	if n < 1 {
		rc.Unknown(fn+"/IsTaggedKey", fd.Pos(), "no assignment of IsTaggedKey found")
	}
}

// ---- C15.R20 a tag decides a name only when exactly one candidate is tagged ----

// Among the candidates for one member name at the shallowest depth encoding/json keeps the one tagged candidate if
// there is exactly one, and drops the name otherwise. isTaggedKeyOnly answers that question for a list of candidates
// in declaration order, of any length: it has to look at every candidate (a loop over the parameter) and count;
// comparing the first two only is right for lists of two.
func c15r20(rc *core.RC) {
	p := rc.P
	fd := p.Func("encoder", "Compiler.isTaggedKeyOnly")
	key := "encoder.(*Compiler).isTaggedKeyOnly/every-candidate-counted"
	if fd == nil || fd.Body == nil || fd.Type.Params.NumFields() < 1 {
		rc.Unknown(key, token.NoPos, "function not found")
		return
	}
	info := p.Info(fd)
	rc.Touch(p.FuncName(fd))
	param := info.Defs[fd.Type.Params.List[0].Names[0]]
	ranged := false
	var fixed []string
	ast.Inspect(fd.Body, func(m ast.Node) bool {
		switch x := m.(type) {
		case *ast.RangeStmt:
			if core.ObjOf(info, x.X) == param {
				ranged = true
			}
		case *ast.ForStmt:
			// an index loop up to len(param)
			ast.Inspect(x.Cond, func(k ast.Node) bool {
				if c, ok := k.(*ast.CallExpr); ok && core.IsBuiltin(info, c, "len") && len(c.Args) == 1 && core.ObjOf(info, c.Args[0]) == param {
					ranged = true
				}
				return true
			})
		case *ast.IndexExpr:
			if core.ObjOf(info, x.X) == param {
				if _, isC := core.ConstInt(info, x.Index); isC {
					fixed = append(fixed, core.Src(p.Fset, x))
				}
			}
		}
		return true
	})
	switch {
	case ranged:
		rc.OK(key, fd.Pos(), "the function loops over all candidates")
	case len(fixed) > 0:
		rc.Bad(key, fd.Pos(), "the function looks at %s only: with three or more candidates for a name (in declaration order, not sorted tagged-first) the answer is wrong: [untagged, untagged, tagged] drops the member, [untagged, tagged, tagged] writes it twice", strings.Join(fixed, ", "))
	default:
		rc.Unknown(key, fd.Pos(), "neither a loop over the candidates nor a fixed selection found")
	}
}

// ---- C15.R21 only member names are promoted from an embedded struct ----

// A struct decoder's field map holds, next to every member name, a lower-case alias for case-insensitive matching.
// When the members of an embedded struct are promoted into the outer struct, the aliases must stay behind: promoted
// as if it were a member called "x", the alias of a hidden A.X survives the conflict resolution (nothing else is
// called "x" exactly) and the key "x" then selects A.X instead of the outer X that hides it.
// promotionRange tells whether rs, a range statement of the decoder's compileStruct, walks the fields an embedded
// struct decoder hands up: `range X.fieldMap` or `range X.promotedFields()` with X a *structDecoder. It returns the
// function behind the call form (nil for the direct form).
func promotionRange(p *core.Program, info *types.Info, rs *ast.RangeStmt) (bool, *ast.FuncDecl) {
	x := core.Unparen(rs.X)
	isDec := func(e ast.Expr) bool {
		t := info.TypeOf(e)
		return t != nil && strings.HasSuffix(t.String(), "decoder.structDecoder")
	}
	if sel, ok := x.(*ast.SelectorExpr); ok {
		if f := core.FieldOf(info, sel); f != nil && f.Name() == "fieldMap" && isDec(sel.X) {
			return true, nil
		}
	}
	if call, ok := x.(*ast.CallExpr); ok {
		if sel, isSel := core.Unparen(call.Fun).(*ast.SelectorExpr); isSel && isDec(sel.X) {
			if f := core.Callee(info, call); f != nil {
				if hd := p.DeclOf(f); hd != nil && hd.Body != nil {
					reads := false
					ast.Inspect(hd.Body, func(m ast.Node) bool {
						if s2, isS := m.(*ast.SelectorExpr); isS {
							if fv := core.FieldOf(p.Info(hd), s2); fv != nil && (fv.Name() == "fieldMap" || fv.Name() == "orderedFields") {
								reads = true
							}
						}
						return true
					})
					if reads {
						return true, hd
					}
				}
			}
		}
	}
	return false, nil
}

func c15r21(rc *core.RC) {
	p := rc.P
	fd := p.Func("decoder", "compileStruct")
	if fd == nil || fd.Body == nil {
		rc.Unknown("decoder.compileStruct", token.NoPos, "function not found")
		return
	}
	info := p.Info(fd)
	rc.Touch("decoder.compileStruct")
	k := 0
	ast.Inspect(fd.Body, func(m ast.Node) bool {
		rs, ok := m.(*ast.RangeStmt)
		if !ok {
			return true
		}
		isProm, via := promotionRange(p, info, rs)
		if !isProm {
			return true
		}
		k++
		key := fmt.Sprintf("decoder.compileStruct/promotion#%d aliases-stay-behind", k)
		info := info
		if via != nil {
			// the fields come from a function of the embedded decoder: the loop over its field map is there
			info = p.Info(via)
			var inner *ast.RangeStmt
			ast.Inspect(via.Body, func(q ast.Node) bool {
				if r2, isR := q.(*ast.RangeStmt); isR && inner == nil {
					if f := core.FieldOf(info, r2.X); f != nil && f.Name() == "fieldMap" {
						inner = r2
					}
				}
				return true
			})
			if inner == nil {
				// the function hands out a list of fields that holds no alias at all (structDecoder.orderedFields is
				// what filterDuplicatedFields kept, in the order of the declarations)
				lists := false
				ast.Inspect(via.Body, func(q ast.Node) bool {
					if s2, isS := q.(*ast.SelectorExpr); isS {
						if fv := core.FieldOf(info, s2); fv != nil && fv.Name() == "orderedFields" {
							lists = true
						}
					}
					return true
				})
				if lists {
					rc.OK(key, rs.Pos(), "%s hands out the list of the struct's fields, which holds no alias", via.Name.Name)
				} else {
					rc.Unknown(key, rs.Pos(), "no loop over the field map in %s", via.Name.Name)
				}
				return true
			}
			rs = inner
		}
		if rs.Key == nil || rs.Value == nil {
			rc.Bad(key, rs.Pos(), "the loop over the embedded decoder's field map does not look at the map keys: the lower-case aliases are promoted as members")
			return true
		}
		kobj, vobj := core.ObjOf(info, rs.Key), core.ObjOf(info, rs.Value)
		skips := false
		for _, st := range rs.Body.List {
			ifs, isIf := st.(*ast.IfStmt)
			if !isIf || len(ifs.Body.List) == 0 {
				continue
			}
			if br, isBr := ifs.Body.List[len(ifs.Body.List)-1].(*ast.BranchStmt); !isBr || br.Tok != token.CONTINUE {
				continue
			}
			be, isBin := core.Unparen(ifs.Cond).(*ast.BinaryExpr)
			if !isBin || be.Op != token.NEQ {
				continue
			}
			isKeyOf := func(e ast.Expr) bool {
				s2, isSel := core.Unparen(e).(*ast.SelectorExpr)
				return isSel && s2.Sel.Name == "key" && core.ObjOf(info, s2.X) == vobj
			}
			if (core.ObjOf(info, be.X) == kobj && isKeyOf(be.Y)) || (core.ObjOf(info, be.Y) == kobj && isKeyOf(be.X)) {
				skips = true
			}
		}
		rc.Check(skips, key, rs.Pos(), "the loop that promotes the members of an embedded struct skips the entries whose map key is not the entry's own name (the lower-case aliases): promoted, the alias of a hidden member answers the lower-case key in place of the member that hides it")
		return true
	})
	if k < 2 {
		rc.Unknown("decoder.compileStruct/promotions-aliases", fd.Pos(), "found %d promotion loops (confirmed: 2)", k)
	}
}

// ---- C15.R22 the names that hide promoted members do not include the embedding itself ----

// The members of an embedded struct are promoted unless the enclosing struct has a member of the same name. Both
// compilers decide that with StructTags.ExistsKey over the tags of the enclosing struct. The embedded struct is a
// field of the enclosing struct too, and its tag carries the name of its type: a list that still holds it hides the
// promoted member that happens to be called like the type (struct{ E } with E struct{ E int }: the key "E" was lost
// in decoding and fell to a case-insensitive match with another member). Every list that reaches ExistsKey therefore
// has to be built with the embedded structs taken out: each append to it stands under a test (directly, or through
// one predicate function, or behind a `continue` in the same loop) that looks at Anonymous and IsTaggedKey.
func c15r22(rc *core.RC) {
	p := rc.P
	type site struct {
		fd   *ast.FuncDecl
		info *types.Info
		e    ast.Expr
		pos  token.Pos
	}
	mentions := func(info *types.Info, e ast.Node) bool {
		seen := map[string]bool{}
		var scan func(info *types.Info, n ast.Node, depth int)
		scan = func(info *types.Info, n ast.Node, depth int) {
			ast.Inspect(n, func(m ast.Node) bool {
				switch x := m.(type) {
				case *ast.SelectorExpr:
					if x.Sel.Name == "Anonymous" || x.Sel.Name == "IsTaggedKey" {
						seen[x.Sel.Name] = true
					}
				case *ast.CallExpr:
					if depth < 1 {
						if f := core.Callee(info, x); f != nil {
							if d := p.DeclOf(f); d != nil && d.Body != nil {
								scan(p.Info(d), d.Body, depth+1)
							}
						}
					}
				}
				return true
			})
		}
		scan(info, e, 0)
		return seen["Anonymous"] && seen["IsTaggedKey"]
	}
	// every append to the list v inside fd is guarded
	appendsGuarded := func(fd *ast.FuncDecl, info *types.Info, v types.Object) (int, token.Pos) {
		n := 0
		bad := token.NoPos
		ast.Inspect(fd.Body, func(m ast.Node) bool {
			as, ok := m.(*ast.AssignStmt)
			if !ok || len(as.Lhs) != 1 || len(as.Rhs) != 1 || core.ObjOf(info, as.Lhs[0]) != v {
				return true
			}
			c, ok := core.Unparen(as.Rhs[0]).(*ast.CallExpr)
			if !ok || !core.IsBuiltin(info, c, "append") {
				return true
			}
			n++
			guarded := false
			for _, cn := range condChainNodes(fd, as) {
				if mentions(info, cn.cond) {
					guarded = true
				}
			}
			// a `continue` in front of the append, in the same block
			path := core.PathTo(fd.Body, as)
			for i := len(path) - 2; i >= 0 && !guarded; i-- {
				blk, ok := path[i].(*ast.BlockStmt)
				if !ok {
					continue
				}
				for _, st := range blk.List {
					if ast.Node(st) == path[i+1] {
						break
					}
					ifs, ok := st.(*ast.IfStmt)
					if !ok || len(ifs.Body.List) == 0 {
						continue
					}
					if br, ok := ifs.Body.List[len(ifs.Body.List)-1].(*ast.BranchStmt); ok && br.Tok == token.CONTINUE && mentions(info, ifs.Cond) {
						guarded = true
					}
				}
				if i > 0 {
					if _, isLoop := path[i-1].(*ast.ForStmt); isLoop {
						break
					}
					if _, isLoop := path[i-1].(*ast.RangeStmt); isLoop {
						break
					}
				}
			}
			if !guarded {
				bad = as.Pos()
			}
			return true
		})
		return n, bad
	}
	var resolve func(s site, depth int) (bool, string, token.Pos)
	resolve = func(s site, depth int) (bool, string, token.Pos) {
		if depth > 3 {
			return false, "origin of the list not found within three steps", s.pos
		}
		id, ok := core.Unparen(s.e).(*ast.Ident)
		if !ok {
			return false, "the list is not a variable: " + core.Src(p.Fset, s.e), s.pos
		}
		obj := core.ObjOf(s.info, id)
		fnObj, _ := s.info.Defs[s.fd.Name].(*types.Func)
		// a parameter: every caller's argument
		if fnObj != nil {
			sig := fnObj.Type().(*types.Signature)
			for i := 0; i < sig.Params().Len(); i++ {
				if sig.Params().At(i) != obj {
					continue
				}
				ncall := 0
				for _, pk := range p.LibPkgs() {
					for _, fd := range p.Funcs(pk.Name) {
						if fd.Body == nil {
							continue
						}
						var res *struct {
							msg string
							pos token.Pos
						}
						ast.Inspect(fd.Body, func(m ast.Node) bool {
							c, ok := m.(*ast.CallExpr)
							if !ok || core.Callee(pk.TypesInfo, c) != fnObj || i >= len(c.Args) {
								return true
							}
							ncall++
							if fd == s.fd && core.ObjOf(pk.TypesInfo, c.Args[i]) == obj {
								return true // handed on in the recursion
							}
							if ok, msg, pos := resolve(site{fd, pk.TypesInfo, c.Args[i], c.Pos()}, depth+1); !ok && res == nil {
								res = &struct {
									msg string
									pos token.Pos
								}{msg, pos}
							}
							return true
						})
						if res != nil {
							return false, res.msg, res.pos
						}
					}
				}
				if ncall == 0 {
					return false, "no caller of " + p.FuncName(s.fd) + " found", s.pos
				}
				return true, "", token.NoPos
			}
		}
		// a local: its one definition
		// (the definition; the appends that follow are looked at one by one)
		var def ast.Expr = id
		ast.Inspect(s.fd.Body, func(m ast.Node) bool {
			as, ok := m.(*ast.AssignStmt)
			if !ok || as.Tok != token.DEFINE || len(as.Lhs) != len(as.Rhs) {
				return true
			}
			for i, l := range as.Lhs {
				if lid, ok := l.(*ast.Ident); ok && s.info.Defs[lid] == obj {
					def = as.Rhs[i]
				}
			}
			return true
		})
		if c, ok := core.Unparen(def).(*ast.CallExpr); ok {
			if core.IsBuiltin(s.info, c, "make") {
				n, bad := appendsGuarded(s.fd, s.info, obj)
				if n == 0 {
					return false, "nothing is appended to " + id.Name, s.pos
				}
				if bad != token.NoPos {
					return false, "an append to " + id.Name + " is not under a test of Anonymous and IsTaggedKey", bad
				}
				return true, "", token.NoPos
			}
			if f := core.Callee(s.info, c); f != nil {
				if d := p.DeclOf(f); d != nil && d.Body != nil {
					dinfo := p.Info(d)
					// the list the function returns: the variable of its return statements
					var rv types.Object
					ast.Inspect(d.Body, func(m ast.Node) bool {
						if r, ok := m.(*ast.ReturnStmt); ok && len(r.Results) == 1 {
							if o := core.ObjOf(dinfo, r.Results[0]); o != nil {
								rv = o
							}
						}
						return true
					})
					if rv == nil {
						return false, p.FuncName(d) + " does not return a variable", d.Pos()
					}
					n, bad := appendsGuarded(d, dinfo, rv)
					if n == 0 {
						return false, "nothing is appended to the list " + p.FuncName(d) + " returns", d.Pos()
					}
					if bad != token.NoPos {
						return false, p.FuncName(d) + " appends the tag of every field, the embedded structs included", bad
					}
					return true, "", token.NoPos
				}
			}
		}
		return false, "the list " + id.Name + " has no single definition that builds it", s.pos
	}
	n := 0
	for _, pk := range p.LibPkgs() {
		for _, fd := range p.Funcs(pk.Name) {
			if fd.Body == nil {
				continue
			}
			k := 0
			ast.Inspect(fd.Body, func(m ast.Node) bool {
				c, ok := m.(*ast.CallExpr)
				if !ok || core.CalleeName(pk.TypesInfo, c) != "runtime.StructTags.ExistsKey" {
					return true
				}
				sel, ok := core.Unparen(c.Fun).(*ast.SelectorExpr)
				if !ok {
					return true
				}
				n++
				k++
				name := p.FuncName(fd)
				rc.Touch(name)
				key := fmt.Sprintf("%s/ExistsKey#%d list-without-embedded-structs", name, k)
				ok2, msg, pos := resolve(site{fd, pk.TypesInfo, sel.X, c.Pos()}, 0)
				if ok2 {
					rc.OK(key, c.Pos(), "the list asked for hiding names is built with the embedded structs taken out")
				} else {
					if pos == token.NoPos {
						pos = c.Pos()
					}
					rc.Bad(key, pos, "%s: the tag of an embedded struct carries the name of its type, so a promoted member of that name (struct{ E } with E struct{ E int }) counts as hidden and is lost", msg)
				}
				return true
			})
		}
	}
	if n < 3 {
		rc.Unknown("module/ExistsKey-calls", token.NoPos, "found %d calls of StructTags.ExistsKey in the library (confirmed: 3)", n)
	}
}

// ---- C15.R23 case-insensitive matching is Unicode simple folding ----

// encoding/json matches a key to a member name when the two are equal under Unicode simple case folding: besides the
// pairs of upper and lower case that includes the long s (U+017F, folds to s), the Kelvin sign (U+212A, folds to k)
// and the final sigma. The decoder folds in two places: the maps (compileStruct, lookupField) lower-case with
// strings.ToLower, which leaves the long s and the final sigma alone, and the bitmap scanners fold the bytes A-Z and
// compare every other byte as it is, so a key written with the Kelvin sign never selects a member with a k.
// Obligations: every lower-casing that produces or looks up a name goes through unicode.SimpleFold (directly or in one
// helper) and not strings.ToLower; every bitmap scanner has an exit for key bytes outside ASCII (a test against 0x80)
// to the folding lookup.
func c15r23(rc *core.RC) {
	p := rc.P
	pk := p.Pkg("decoder")
	if pk == nil {
		rc.Unknown("decoder", token.NoPos, "package not found")
		return
	}
	info := pk.TypesInfo
	nLower, nScan := 0, 0
	for _, fd := range p.Funcs("decoder") {
		if fd.Body == nil || strings.HasSuffix(p.FileBase(fd.Pos()), "_test.go") {
			continue
		}
		name := p.FuncName(fd)
		// (1) the folds of names: in functions that touch the field maps
		touchesMaps := false
		ast.Inspect(fd.Body, func(n ast.Node) bool {
			if sel, ok := n.(*ast.SelectorExpr); ok {
				if f := core.FieldOf(info, sel); f != nil && (f.Name() == "fieldMap" || f.Name() == "foldFieldMap") {
					touchesMaps = true
				}
			}
			if id, ok := n.(*ast.Ident); ok && id.Name == "fieldMap" {
				if v, ok := core.ObjOf(info, id).(*types.Var); ok && strings.HasPrefix(v.Type().String(), "map[string]*") {
					touchesMaps = true
				}
			}
			return true
		})
		_, bitmapCols := rowIndexVars(info, fd)
		if touchesMaps && len(bitmapCols) == 0 {
			// (the function that fills the bitmaps refuses names with cased letters outside ASCII first, C15.R5: its
			// lower-casing of the names that remain is ASCII folding)
			k := 0
			ast.Inspect(fd.Body, func(n ast.Node) bool {
				c, ok := n.(*ast.CallExpr)
				if !ok {
					return true
				}
				cn := core.CalleeName(info, c)
				if cn != "strings.ToLower" && cn != "strings.ToUpper" {
					return true
				}
				k++
				nLower++
				rc.Touch(name)
				rc.Bad(fmt.Sprintf("%s/%s#%d name-fold-is-simple-folding", name, cn, k), c.Pos(), "%s(%s) folds a member name or key: it is not the folding encoding/json matches names with (it leaves the long s U+017F and the final sigma as they are, simple folding maps them to s and to sigma): {\"ſ\":1} selects the member \"s\" there and no member here", cn, core.Src(p.Fset, c.Args[0]))
				return true
			})
		}
		// (2) the bitmap scanners
		if len(bitmapCols) == 0 || fd.Recv != nil {
			continue
		}
		nScan++
		rc.Touch(name)
		exit := false
		ast.Inspect(fd.Body, func(n ast.Node) bool {
			ifs, ok := n.(*ast.IfStmt)
			if !ok {
				return true
			}
			has128 := false
			ast.Inspect(ifs.Cond, func(m ast.Node) bool {
				if be, ok := m.(*ast.BinaryExpr); ok {
					for _, side := range []ast.Expr{be.X, be.Y} {
						if v, ok := core.ConstInt(info, side); ok && (v == 128 || v == 127) {
							has128 = true
						}
					}
				}
				return true
			})
			if !has128 {
				return true
			}
			ast.Inspect(ifs.Body, func(m ast.Node) bool {
				if c, ok := m.(*ast.CallExpr); ok {
					switch core.CalleeName(info, c) {
					case "decoder.decodeKey", "decoder.decodeKeyStream", "decoder.structDecoder.lookupField":
						exit = true
					}
				}
				return true
			})
			return true
		})
		rc.Check(exit, name+"/non-ascii-key-bytes-leave-the-bitmap", fd.Pos(), "the scanner compares every key byte outside ASCII with the bytes of the member names as it is (there is no exit, on a byte >= 0x80, to the lookup that folds): the Kelvin sign U+212A, which simple folding maps to k, never selects a member with a k: {\"K\":1} sets the member \"k\" in encoding/json and nothing here")
	}
	if nScan < 4 {
		rc.Unknown("decoder/bitmap-scanners", token.NoPos, "found %d bitmap scanners (confirmed: 4)", nScan)
	}
	_ = nLower
}

// ---- C15.R24 no key is declared unknown before it has been folded ----

// lookupField answers a key with the field of exactly that name, otherwise with the field its case-folded form
// selects. A shortcut between the two ("a key without an upper-case letter that is not a name needs no folding") is
// right only if its test knows every letter that folding changes; a test over the ASCII table takes É for a letter
// without case, and "École" no longer selects the field "école". Obligation: an if statement that returns no field
// in front of the fold lookup is evaluated (its condition folded with the key bound to each of a set of sample keys
// with cased letters inside and outside ASCII): it may fire only for keys that strings.ToLower leaves as they are.
func c15r24(rc *core.RC) {
	p := rc.P
	pk := p.Pkg("decoder")
	if pk == nil {
		rc.Unknown("decoder", token.NoPos, "package not found")
		return
	}
	info := pk.TypesInfo
	samples := []string{"abc", "Abc", "aBC", "ÉCOLE", "École", "école", "ÄRGER", "Ärger", "straße", "İstanbul", "ΣΑΣ", "σας", "Жук", "жук", "a_b-1", "K", "ſ", "日本", "Ǆ"}
	n := 0
	for _, fd := range p.Funcs("decoder") {
		if fd.Body == nil {
			continue
		}
		// the fold lookup: an index into foldFieldMap
		var fold ast.Node
		ast.Inspect(fd.Body, func(m ast.Node) bool {
			if ix, ok := m.(*ast.IndexExpr); ok {
				if f := core.FieldOf(info, ix.X); f != nil && f.Name() == "foldFieldMap" && fold == nil {
					fold = ix
				}
			}
			return true
		})
		if fold == nil {
			continue
		}
		name := p.FuncName(fd)
		rc.Touch(name)
		n++
		var keyParam types.Object
		for _, f := range fd.Type.Params.List {
			for _, nm := range f.Names {
				if o := info.Defs[nm]; o != nil && o.Type().String() == "string" {
					keyParam = o
				}
			}
		}
		k := 0
		for _, st := range fd.Body.List {
			ifs, ok := st.(*ast.IfStmt)
			if !ok || ifs.Pos() > fold.Pos() || ifs.Init != nil || len(ifs.Body.List) == 0 {
				continue
			}
			ret, ok := ifs.Body.List[len(ifs.Body.List)-1].(*ast.ReturnStmt)
			if !ok || len(ret.Results) == 0 {
				continue
			}
			if tv, has := info.Types[ret.Results[0]]; !has || !tv.IsNil() {
				continue
			}
			k++
			key := fmt.Sprintf("%s/early-unknown#%d only-for-keys-folding-leaves-alone", name, k)
			if keyParam == nil {
				rc.Unknown(key, ifs.Pos(), "the key parameter was not found")
				continue
			}
			bad, undecided := "", ""
			for _, s := range samples {
				bp := &core.BytePred{P: p, Strings: map[types.Object][]byte{keyParam: []byte(s)}}
				fires, ok := bp.EvalBool(info, ifs.Cond, core.BindAll(nil))
				if !ok {
					undecided = s
					break
				}
				if fires && strings.ToLower(s) != s {
					bad = s
					break
				}
			}
			switch {
			case undecided != "":
				rc.Unknown(key, ifs.Pos(), "the condition `%s` could not be folded for the key %q", core.Src(p.Fset, ifs.Cond), undecided)
			case bad != "":
				rc.Bad(key, ifs.Pos(), "`%s` declares the key %q unknown without folding it, and strings.ToLower changes that key: a field whose name is its lower-case form is not selected (encoding/json matches it)", core.Src(p.Fset, ifs.Cond), bad)
			default:
				rc.OK(key, ifs.Pos(), "the shortcut fires for none of the %d sample keys that folding changes", len(samples))
			}
		}
		if k == 0 {
			rc.OK(name+"/fold-lookup-reached", fd.Pos(), "no return of an unknown key stands between the exact lookup and the fold lookup")
		}
	}
	if n < 1 {
		rc.Unknown("decoder/fold-lookups", token.NoPos, "no function that consults foldFieldMap found")
	}
}

// ---- C15.R25 whether a field is exported is what the type system says ----

// encoding/json ignores a field that is not exported: reflect reports that in StructField.PkgPath (non-empty) or
// IsExported. The case of the first letter is not the same thing: `_pad`, `_` and names in scripts without case are
// not exported and have no lower-case first letter. Obligation: runtime.IsIgnoredStructField (with the helpers of
// its package it calls) tests field.PkgPath or field.IsExported(), and no unicode.IsLower / IsUpper takes part in it.
func c15r25(rc *core.RC) {
	p := rc.P
	fd := p.Func("runtime", "IsIgnoredStructField")
	key := "runtime.IsIgnoredStructField/exported-as-reflect-says"
	if fd == nil || fd.Body == nil {
		rc.Unknown(key, token.NoPos, "function not found")
		return
	}
	rc.Touch(p.FuncName(fd))
	pk := p.Pkg("runtime")
	info := pk.TypesInfo
	typeSystem, byCase := false, ""
	seen := map[*ast.FuncDecl]bool{}
	var visit func(g *ast.FuncDecl, depth int)
	visit = func(g *ast.FuncDecl, depth int) {
		if g == nil || g.Body == nil || seen[g] || depth > 2 {
			return
		}
		seen[g] = true
		ast.Inspect(g.Body, func(m ast.Node) bool {
			switch x := m.(type) {
			case *ast.SelectorExpr:
				if f := core.FieldOf(info, x); f != nil && f.Name() == "PkgPath" && f.Pkg() != nil && f.Pkg().Path() == "reflect" {
					typeSystem = true
				}
			case *ast.CallExpr:
				cn := core.CalleeName(info, x)
				switch {
				case cn == "reflect.StructField.IsExported":
					typeSystem = true
				case cn == "unicode.IsLower" || cn == "unicode.IsUpper" || cn == "unicode.ToLower" || cn == "unicode.ToUpper":
					if byCase == "" {
						byCase = cn + " in " + p.FuncName(g)
					}
				default:
					if f := core.Callee(info, x); f != nil && f.Pkg() == pk.Types {
						visit(p.DeclOf(f), depth+1)
					}
				}
			}
			return true
		})
	}
	visit(fd, 0)
	switch {
	case byCase != "":
		rc.Bad(key, fd.Pos(), "whether a field is ignored depends on the case of a letter of its name (%s): a field named _pad, _ or with a first letter that has no case is not exported, and encoding/json ignores it; here it is written and set", byCase)
	case !typeSystem:
		rc.Bad(key, fd.Pos(), "IsIgnoredStructField tests neither field.PkgPath nor field.IsExported(): fields that are not exported are not told from exported ones")
	default:
		rc.OK(key, fd.Pos(), "a field is taken for unexported when reflect says so (PkgPath / IsExported); no test of a letter's case takes part")
	}
}

// ---- C15.R26 a name that is ambiguous in an embedded struct stays ambiguous in the struct that embeds it ----

// encoding/json resolves a member name over all embedding levels at once: the fields of that name at the shallowest
// depth decide, and when they are two or more without a single tagged one the name has no field at all, however many
// fields of that name lie deeper. Both compilers here resolve a struct by itself and then promote what is left of it.
// The fields an embedded struct dropped as ambiguous must therefore travel with it: in the struct that embeds it they
// are candidates at their depth (they hide a deeper field of the name and stay ambiguous). Obligations: the decoder's
// compileStruct records the dropped fields of a struct (structDecoder.ambiguousFields, from filterDuplicatedFields)
// and promotes the fields of an embedded struct through a function that reads both fieldMap and ambiguousFields,
// never by ranging over another decoder's fieldMap itself; the encoder's structCode records StructCode.ambiguous and
// getAnonymousFieldMap enters those fields into the field map of the embedding struct.
func c15r26(rc *core.RC) {
	p := rc.P
	fieldUse := func(short string, fd *ast.FuncDecl, field string) (reads, writes int) {
		if fd == nil || fd.Body == nil {
			return
		}
		info := p.Info(fd)
		lhs := map[ast.Node]bool{}
		ast.Inspect(fd.Body, func(m ast.Node) bool {
			if as, ok := m.(*ast.AssignStmt); ok {
				for _, l := range as.Lhs {
					lhs[core.Unparen(l)] = true
				}
			}
			return true
		})
		ast.Inspect(fd.Body, func(m ast.Node) bool {
			sel, ok := m.(*ast.SelectorExpr)
			if !ok {
				return true
			}
			if f := core.FieldOf(info, sel); f != nil && f.Name() == field && f.Pkg() != nil && strings.HasSuffix(f.Pkg().Path(), "internal/"+short) {
				if lhs[sel] {
					writes++
				} else {
					reads++
				}
			}
			return true
		})
		return
	}
	// decoder
	{
		key := "decoder.compileStruct/ambiguous-fields-travel-with-the-embedded-struct"
		cs := p.Func("decoder", "compileStruct")
		if cs == nil {
			rc.Unknown(key, token.NoPos, "compileStruct not found")
		} else {
			rc.Touch(p.FuncName(cs))
			info := p.Info(cs)
			_, w := fieldUse("decoder", cs, "ambiguousFields")
			// a range over the fieldMap of a decoder other than the one under construction
			var direct ast.Node
			ast.Inspect(cs.Body, func(m ast.Node) bool {
				rs, ok := m.(*ast.RangeStmt)
				if !ok {
					return true
				}
				if sel, isSel := core.Unparen(rs.X).(*ast.SelectorExpr); isSel {
					if f := core.FieldOf(info, sel); f != nil && f.Name() == "fieldMap" && direct == nil {
						direct = rs
					}
				}
				return true
			})
			// the function the promoted fields come from
			through := ""
			ast.Inspect(cs.Body, func(m ast.Node) bool {
				rs, ok := m.(*ast.RangeStmt)
				if !ok {
					return true
				}
				if call, isCall := core.Unparen(rs.X).(*ast.CallExpr); isCall {
					if f := core.Callee(info, call); f != nil {
						if hd := p.DeclOf(f); hd != nil {
							r1, _ := fieldUse("decoder", hd, "fieldMap")
							if r0, _ := fieldUse("decoder", hd, "orderedFields"); r0 > 0 {
								r1 = r0
							}
							r2, _ := fieldUse("decoder", hd, "ambiguousFields")
							if r1 > 0 && r2 > 0 {
								through = f.Name()
							}
						}
					}
				}
				return true
			})
			switch {
			case direct != nil:
				rc.Bad(key, direct.Pos(), "compileStruct promotes the fields of an embedded struct by ranging over that decoder's fieldMap: the fields it dropped as ambiguous are not seen, so two X at one depth in one embedded struct do not hide an X that lies deeper in another (encoding/json gives the name no field; here the deeper one is written and set)")
			case w == 0 || through == "":
				rc.Bad(key, cs.Pos(), "the fields a struct drops because their name is ambiguous are not recorded (structDecoder.ambiguousFields assigned %d time(s)) or not promoted with the struct's other fields (through: %q): ambiguity is resolved per embedding level, not over the whole struct as encoding/json does", w, through)
			default:
				rc.OK(key, cs.Pos(), "the dropped fields are recorded and promoted with the others through %s", through)
			}
		}
	}
	// encoder
	{
		key := "encoder.(*Compiler).structCode/ambiguous-fields-travel-with-the-embedded-struct"
		sc := p.Func("encoder", "Compiler.structCode")
		am := p.Func("encoder", "Compiler.getAnonymousFieldMap")
		if sc == nil || am == nil {
			rc.Unknown(key, token.NoPos, "structCode or getAnonymousFieldMap not found")
			return
		}
		rc.Touch(p.FuncName(sc))
		_, w := fieldUse("encoder", sc, "ambiguous")
		r, _ := fieldUse("encoder", am, "ambiguous")
		if w > 0 && r > 0 {
			rc.OK(key, sc.Pos(), "structCode records the fields dropped as ambiguous and getAnonymousFieldMap enters them into the field map of the embedding struct")
		} else {
			rc.Bad(key, sc.Pos(), "the fields a struct drops because their name is ambiguous are not recorded (StructCode.ambiguous assigned in structCode %d time(s)) or not entered into the field map of the struct that embeds it (read in getAnonymousFieldMap %d time(s)): a deeper field of the name is written where encoding/json writes none", w, r)
		}
	}
}

// ---- C15.R27 the fields promoted from an embedded struct come in the order of their declaration ----

// A key that is no field's exact name selects the first field, in the order of the declarations, that matches it
// case-insensitively. The struct decoder enters the lower-case alias of a name for the first field it meets (first
// win), so the order in which it meets the fields is the order that counts. Fields promoted from an embedded struct
// come from that struct's decoder: read out of its field map they come in the order of a Go map, which changes from
// run to run (struct{ E } with E{ Id; ID } gave the key "id" to one or the other). Obligation: no range statement
// over a structDecoder's fieldMap produces the fields that compileStruct promotes (directly in compileStruct or in
// the function it ranges over).
func c15r27(rc *core.RC) {
	p := rc.P
	fd := p.Func("decoder", "compileStruct")
	key := "decoder.compileStruct/promoted-fields-in-declaration-order"
	if fd == nil || fd.Body == nil {
		rc.Unknown(key, token.NoPos, "compileStruct not found")
		return
	}
	rc.Touch(p.FuncName(fd))
	info := p.Info(fd)
	n := 0
	var overMap ast.Node
	where := ""
	ast.Inspect(fd.Body, func(m ast.Node) bool {
		rs, ok := m.(*ast.RangeStmt)
		if !ok {
			return true
		}
		isProm, via := promotionRange(p, info, rs)
		if !isProm {
			return true
		}
		n++
		if via == nil {
			if overMap == nil {
				overMap, where = rs, "compileStruct"
			}
			return true
		}
		vinfo := p.Info(via)
		ast.Inspect(via.Body, func(q ast.Node) bool {
			if r2, isR := q.(*ast.RangeStmt); isR {
				if t := vinfo.TypeOf(r2.X); t != nil {
					if _, isMap := t.Underlying().(*types.Map); isMap && overMap == nil {
						overMap, where = r2, via.Name.Name
					}
				}
			}
			return true
		})
		return true
	})
	switch {
	case n < 2:
		rc.Unknown(key, fd.Pos(), "found %d loops that promote the fields of an embedded struct, fewer than the 2 confirmed by hand", n)
	case overMap != nil:
		rc.Bad(key, overMap.Pos(), "the fields promoted from an embedded struct are read out of a map (in %s): their order changes from run to run, and with it the field a key selects case-insensitively when two promoted names differ only in case", where)
	default:
		rc.OK(key, fd.Pos(), "the promoted fields come from a list kept in the order of the declarations")
	}
}

// ---- C15.R28 the depth written into a field is never computed from the depth another pass left there ----

// StructFieldCode.depth is a scratch value: every struct that is compiled writes into it the embedding depth of the
// field below that struct, while its name conflicts are resolved, and the next enclosing struct overwrites it. The
// depth a dropped (ambiguous) field has below the struct that dropped it is kept apart, in the record
// StructCode.ambiguous holds. A depth computed from the scratch value (`f.depth += depth`, `f.depth = f.depth + 1`)
// is right for the first enclosing struct and wrong from the second on, where the value is what the level below
// left behind: an ambiguous pair then counts as deeper than it is and a lone field of the name in another branch is
// written. Obligation: in package encoder no assignment to StructFieldCode.depth reads StructFieldCode.depth, and
// none is a compound assignment or an increment.
func c15r28(rc *core.RC) {
	p := rc.P
	pk := p.Pkg("encoder")
	if pk == nil {
		return
	}
	info := pk.TypesInfo
	isScratch := func(e ast.Expr) bool {
		sel, ok := core.Unparen(e).(*ast.SelectorExpr)
		if !ok || sel.Sel.Name != "depth" {
			return false
		}
		s := info.Selections[sel]
		if s == nil {
			return false
		}
		return strings.HasSuffix(strings.TrimPrefix(s.Recv().String(), "*"), "encoder.StructFieldCode")
	}
	n := 0
	for _, fd := range p.Funcs("encoder") {
		if fd.Body == nil {
			continue
		}
		k := 0
		ast.Inspect(fd.Body, func(m ast.Node) bool {
			var lhs, rhs ast.Expr
			tok := token.ASSIGN
			var at ast.Node
			switch x := m.(type) {
			case *ast.AssignStmt:
				if len(x.Lhs) == 1 && len(x.Rhs) == 1 {
					lhs, rhs, tok, at = x.Lhs[0], x.Rhs[0], x.Tok, x
				}
			case *ast.IncDecStmt:
				lhs, tok, at = x.X, x.Tok, x
			}
			if lhs == nil || !isScratch(lhs) {
				return true
			}
			n++
			k++
			rc.Touch(p.FuncName(fd))
			key := fmt.Sprintf("%s/depth-store#%d not-from-the-scratch-value", p.FuncName(fd), k)
			reads := false
			if rhs != nil {
				ast.Inspect(rhs, func(q ast.Node) bool {
					if e, isE := q.(ast.Expr); isE && isScratch(e) {
						reads = true
					}
					return true
				})
			}
			if tok != token.ASSIGN || reads {
				rc.Bad(key, at.Pos(), "the depth of a field is computed from the depth an earlier pass left in it (%s): that value is the field's depth below whichever struct was compiled last, so from the second enclosing struct on an ambiguous pair counts as deeper than it is, and a lone field of the same name in another branch is written where encoding/json writes none", core.Src(p.Fset, at))
			} else {
				rc.OK(key, at.Pos(), "assigned from the depth of the walk%s", map[bool]string{true: "", false: ""}[true])
			}
			return true
		})
	}
	if n < 4 {
		rc.Unknown("encoder/StructFieldCode.depth-stores", token.NoPos, "found %d assignments to StructFieldCode.depth, fewer than the 4 confirmed by hand", n)
	}
}

// ---- C15.R29 the number a field has for the first-win bookkeeping belongs to the field, not to a spelling ----

// Under DecodeFieldPriorityFirstWin the struct decoders remember which fields have had a value (seenFields, by
// structFieldSet.fieldIdx) and step over later members for the same field. The numbers are given out in tryOptimize,
// over the field map, which holds every field under its name and under the lower-case alias of the name. Numbered by
// the lower-cased key, two fields whose names differ only in case ("A" and "a") get one number, and the second
// field's value is skipped as if it were a repetition of the first. Obligation: every value assigned to
// structFieldSet.fieldIdx in tryOptimize comes from a map keyed by the field set itself (*structFieldSet).
func c15r29(rc *core.RC) {
	p := rc.P
	fd := p.Func("decoder", "structDecoder.tryOptimize")
	key := "decoder.(*structDecoder).tryOptimize/fieldIdx-per-field"
	if fd == nil || fd.Body == nil {
		rc.Unknown(key, token.NoPos, "tryOptimize not found")
		return
	}
	rc.Touch(p.FuncName(fd))
	info := p.Info(fd)
	n, good := 0, 0
	var at ast.Node
	ast.Inspect(fd.Body, func(m ast.Node) bool {
		as, ok := m.(*ast.AssignStmt)
		if !ok || len(as.Lhs) != 1 || len(as.Rhs) != 1 {
			return true
		}
		sel, isSel := core.Unparen(as.Lhs[0]).(*ast.SelectorExpr)
		if !isSel || sel.Sel.Name != "fieldIdx" {
			return true
		}
		if f := core.FieldOf(info, sel); f == nil {
			return true
		}
		n++
		at = as
		// the assigned value: a local whose definitions come from a map indexed by a *structFieldSet, or len of such a map
		fromIdentityMap := false
		if o := core.ObjOf(info, as.Rhs[0]); o != nil {
			ast.Inspect(fd.Body, func(q ast.Node) bool {
				a2, isAs := q.(*ast.AssignStmt)
				if !isAs {
					return true
				}
				for i, l := range a2.Lhs {
					if core.ObjOf(info, l) != o {
						continue
					}
					var rhs ast.Expr
					if len(a2.Rhs) == len(a2.Lhs) {
						rhs = a2.Rhs[i]
					} else if len(a2.Rhs) == 1 {
						rhs = a2.Rhs[0]
					}
					ast.Inspect(rhs, func(z ast.Node) bool {
						var mapExpr ast.Expr
						switch x := z.(type) {
						case *ast.IndexExpr:
							mapExpr = x.X
						case *ast.CallExpr:
							if core.IsBuiltin(info, x, "len") && len(x.Args) == 1 {
								mapExpr = x.Args[0]
							}
						}
						if mapExpr != nil {
							if t := info.TypeOf(mapExpr); t != nil {
								if mt, isMap := t.Underlying().(*types.Map); isMap && strings.HasSuffix(mt.Key().String(), "structFieldSet") {
									fromIdentityMap = true
								}
							}
						}
						return true
					})
				}
				return true
			})
		}
		if fromIdentityMap {
			good++
		}
		return true
	})
	switch {
	case n == 0:
		rc.Unknown(key, fd.Pos(), "no assignment to structFieldSet.fieldIdx found in tryOptimize")
	case good == n:
		rc.OK(key, at.Pos(), "the numbers come from a map keyed by the field set")
	default:
		rc.Bad(key, at.Pos(), "the number a field gets for the first-win bookkeeping is looked up by a spelling of its name: two fields whose names differ only in case share it, and under DecodeFieldPriorityFirstWin the value of the second is skipped as a repetition of the first ({\"A\":1,\"a\":2} into struct{ A int `json:\"A\"`; B int `json:\"a\"` } leaves B zero)")
	}
}
