package rules

import (
	"fmt"
	"go/ast"
	"go/constant"
	"go/token"
	"go/types"
	"sort"
	"strings"
	"unicode/utf8"

	"verif/checker/core"
)

// ---------- shared: the encoder's four string appenders ----------

type strVariant struct {
	fn        *ast.FuncDecl
	name      string
	html      bool
	normalize bool
	table     *core.Table
	tableName string
	// every [256]bool table the appender consults (tail scan, slow path): all must satisfy the variant's requirement
	tables   []*core.Table
	tablePos map[string]token.Pos
}

// stringVariants derives, from the body of encoder.AppendString, which
// appender is used under which flag combination.
func stringVariants(rc *core.RC) []strVariant {
	p := rc.P
	fd := p.Func("encoder", "AppendString")
	if fd == nil {
		rc.Unknown("encoder.AppendString", token.NoPos, "anchor function not found")
		return nil
	}
	rc.Touch("encoder.AppendString")
	info := p.Info(fd)
	var out []strVariant
	flagOf := func(cond ast.Expr) string {
		name := ""
		ast.Inspect(cond, func(n ast.Node) bool {
			if id, ok := n.(*ast.Ident); ok {
				if c, ok := info.Uses[id].(*types.Const); ok && strings.HasSuffix(c.Name(), "Option") {
					name = c.Name()
				}
			}
			return true
		})
		// only the form  flags&X != 0  is recognised
		if be, ok := core.Unparen(cond).(*ast.BinaryExpr); !ok || be.Op != token.NEQ {
			return ""
		}
		return name
	}
	var walk func(list []ast.Stmt, on map[string]bool)
	walk = func(list []ast.Stmt, on map[string]bool) {
		on2 := map[string]bool{}
		for k, v := range on {
			on2[k] = v
		}
		on = on2
		for _, st := range list {
			switch s := st.(type) {
			case *ast.IfStmt:
				f := flagOf(s.Cond)
				if f == "" || s.Else != nil {
					rc.Unknown("encoder.AppendString/dispatch", s.Pos(), "unrecognised dispatch condition %s", core.Src(p.Fset, s.Cond))
					continue
				}
				in := map[string]bool{}
				for k, v := range on {
					in[k] = v
				}
				in[f] = true
				walk(s.Body.List, in)
				// body must end in return for the negative fact to hold afterwards
				if n := len(s.Body.List); n > 0 {
					if _, ok := s.Body.List[n-1].(*ast.ReturnStmt); ok {
						on[f] = false
					}
				}
			case *ast.ReturnStmt:
				if len(s.Results) == 1 {
					if call, ok := core.Unparen(s.Results[0]).(*ast.CallExpr); ok {
						if callee := core.Callee(info, call); callee != nil {
							d := p.DeclOf(callee)
							if d != nil {
								out = append(out, strVariant{fn: d, name: callee.Name(), html: on["HTMLEscapeOption"], normalize: on["NormalizeUTF8Option"]})
							}
						}
					}
				}
			}
		}
	}
	walk(fd.Body.List, map[string]bool{})
	// find the [256]bool table each appender indexes
	pk := p.Pkg("encoder")
	for i := range out {
		v := &out[i]
		names := map[string]bool{}
		v.tablePos = map[string]token.Pos{}
		ast.Inspect(v.fn.Body, func(n ast.Node) bool {
			if ix, ok := n.(*ast.IndexExpr); ok {
				if obj, ok := core.ObjOf(info, ix.X).(*types.Var); ok && obj.Parent() == pk.Types.Scope() {
					if a, ok := obj.Type().Underlying().(*types.Array); ok && a.Len() == 256 {
						if b, ok := a.Elem().Underlying().(*types.Basic); ok && b.Kind() == types.Bool {
							names[obj.Name()] = true
							if _, seen := v.tablePos[obj.Name()]; !seen {
								v.tablePos[obj.Name()] = ix.Pos()
							}
						}
					}
				}
			}
			return true
		})
		var sorted []string
		for n := range names {
			sorted = append(sorted, n)
		}
		sort.Strings(sorted)
		for _, n := range sorted {
			if t := core.EvalTable(pk, n); t != nil {
				v.tables = append(v.tables, t)
			}
		}
		if len(v.tables) > 0 {
			v.table, v.tableName = v.tables[0], v.tables[0].Name
		}
	}
	return out
}

// escapeSwitch finds the slow-path switch of an appender: a tag switch over a
// byte variable with a singleton or shared clause for '"' and '\\'.
func escapeSwitch(info *types.Info, fd *ast.FuncDecl) *core.ByteSwitch {
	var found *core.ByteSwitch
	ast.Inspect(fd.Body, func(n ast.Node) bool {
		sw, ok := n.(*ast.SwitchStmt)
		if !ok || found != nil {
			return true
		}
		bs, ok := core.EvalByteSwitch(info, sw)
		if ok && bs.HasLabel('"') && bs.HasLabel('\\') && bs.HasLabel('\n') {
			found = bs
		}
		return true
	})
	return found
}

// emittedEscape classifies what an encoder clause appends for input byte b:
// letter = the byte after the backslash (0 if none), 'u' for a \u00XX escape.
func emittedEscape(info *types.Info, cc *ast.CaseClause, tag types.Object, b int) (letter int, ok bool) {
	letter = -1
	ast.Inspect(cc, func(n ast.Node) bool {
		call, isCall := n.(*ast.CallExpr)
		if !isCall || !core.IsBuiltin(info, call, "append") || len(call.Args) < 2 {
			return true
		}
		if v, isC := core.ConstInt(info, call.Args[1]); isC && v == '\\' && len(call.Args) == 3 {
			if c, isC := core.ConstInt(info, call.Args[2]); isC {
				letter = int(c)
			} else if core.ObjOf(info, call.Args[2]) == tag {
				letter = b
			}
		}
		if cv := core.ConstValue(info, call.Args[1]); cv != nil && cv.Kind() == constant.String {
			s := constant.StringVal(cv)
			if strings.HasPrefix(s, `\u`) {
				letter = 'u'
			}
		}
		return true
	})
	return letter, letter >= 0
}

// ---------- C17.R1 ----------

func c17r1(rc *core.RC) {
	p := rc.P
	vs := stringVariants(rc)
	if len(vs) != 4 {
		rc.Unknown("encoder.AppendString/variants", token.NoPos, "expected 4 appenders reachable from AppendString, found %d", len(vs))
	}
	pk := p.Pkg("encoder")
	lsbObj, _ := pk.Types.Scope().Lookup("lsb").(*types.Const)
	var lsb uint64
	if lsbObj != nil {
		lsb, _ = constant.Uint64Val(constant.ToInt(lsbObj.Val()))
	}
	for _, v := range vs {
		fn := "encoder." + v.name
		rc.Touch(fn)
		info := p.Info(v.fn)
		if v.table == nil {
			rc.Unknown(fn+"/table", v.fn.Pos(), "could not identify a constant [256]bool escape table")
			continue
		}
		// (a) contents of every table the appender consults
		for _, tb := range v.tables {
			if tb.Opaque {
				rc.Unknown(fn+"/table "+tb.Name, tb.Pos, "escape table is not constant")
				continue
			}
			for b := 0; b < 256; b++ {
				want := b < 0x20 || b == '"' || b == '\\'
				if b == '<' || b == '>' || b == '&' {
					want = v.html
				}
				if b >= 0x80 {
					want = v.normalize
				}
				key := fmt.Sprintf("%s/%s[0x%02x]", fn, tb.Name, b)
				pos := v.tablePos[tb.Name]
				if tb.Bool(b) == want {
					rc.OK(key, pos, "marked=%v", want)
				} else if b >= 0x80 && !v.normalize {
					// non-normalising variants may mark high bytes harmlessly (the slow path copies them through)
					rc.OK(key, pos, "high byte marked in non-normalising variant (slow path copies it)")
				} else {
					rc.Bad(key, pos, "%s consults table %s, which marks byte 0x%02x as %v; the %s variant (html=%v normalize=%v) requires %v", v.name, tb.Name, b, tb.Bool(b), v.name, v.html, v.normalize, want)
				}
			}
		}
		// (b) SWAR mask terms
		var maskExpr ast.Expr
		ast.Inspect(v.fn.Body, func(n ast.Node) bool {
			if as, ok := n.(*ast.AssignStmt); ok && len(as.Lhs) == 1 && len(as.Rhs) == 1 {
				// the SWAR mask, whatever it is called: a uint64 assigned an |-combination of terms over the loaded word
				if id, ok := as.Lhs[0].(*ast.Ident); ok && id.Name != "_" {
					if be, isOr := core.Unparen(as.Rhs[0]).(*ast.BinaryExpr); isOr && be.Op == token.OR {
						if t := p.Info(v.fn).TypeOf(id); t != nil && t.String() == "uint64" {
							maskExpr = as.Rhs[0]
						}
					}
				}
			}
			return true
		})
		if maskExpr == nil || lsb == 0 {
			rc.Unknown(fn+"/mask", v.fn.Pos(), "8-byte scan mask assignment not found")
		} else {
			var terms []ast.Expr
			var split func(e ast.Expr)
			split = func(e ast.Expr) {
				e = core.Unparen(e)
				if be, ok := e.(*ast.BinaryExpr); ok && be.Op == token.OR {
					split(be.X)
					split(be.Y)
					return
				}
				terms = append(terms, e)
			}
			split(maskExpr)
			classes := map[int]bool{}
			threshold := -1
			high := false
			bad := false
			constOf := func(e ast.Expr) (uint64, bool) {
				cv := core.ConstValue(info, e)
				if cv == nil {
					return 0, false
				}
				return constant.Uint64Val(constant.ToInt(cv))
			}
			for _, t := range terms {
				switch x := t.(type) {
				case *ast.Ident:
					high = true
				case *ast.BinaryExpr:
					if x.Op != token.SUB {
						bad = true
						continue
					}
					if inner, ok := core.Unparen(x.X).(*ast.BinaryExpr); ok && inner.Op == token.XOR {
						c, ok1 := constOf(inner.Y)
						l, ok2 := constOf(x.Y)
						if ok1 && ok2 && l == lsb && c%lsb == 0 && c/lsb < 256 {
							classes[int(c/lsb)] = true
						} else {
							bad = true
						}
					} else if _, ok := core.Unparen(x.X).(*ast.Ident); ok {
						c, ok1 := constOf(x.Y)
						if ok1 && c%lsb == 0 && c/lsb < 256 {
							threshold = int(c / lsb)
						} else {
							bad = true
						}
					} else {
						bad = true
					}
				default:
					bad = true
				}
			}
			if bad {
				rc.Unknown(fn+"/mask", maskExpr.Pos(), "mask has a term of unrecognised shape: %s", core.Src(p.Fset, maskExpr))
			} else {
				want := map[int]bool{'"': true, '\\': true}
				if v.html {
					want['<'], want['>'], want['&'] = true, true, true
				}
				for c := range want {
					rc.Check(classes[c], fmt.Sprintf("%s/mask/class %q", fn, rune(c)), maskExpr.Pos(), "8-byte scan mask has an equality term for %q", rune(c))
				}
				for c := range classes {
					if !want[c] {
						// an extra class only sends more chunks to the slow path; harmless iff the table agrees
						rc.Check(v.table.Bool(c), fmt.Sprintf("%s/mask/class %q", fn, rune(c)), maskExpr.Pos(), "extra mask class %q must also be marked in %s", rune(c), v.tableName)
					}
				}
				rc.Check(threshold == 0x20, fn+"/mask/threshold", maskExpr.Pos(), "control-byte threshold term is lsb*0x%02x (need 0x20)", threshold)
				rc.Check(high, fn+"/mask/highbit", maskExpr.Pos(), "mask includes the raw word (bytes >= 0x80 leave the fast path)")
			}
		}
		// (c) every marked ASCII byte has an escaping clause
		bs := escapeSwitch(info, v.fn)
		if bs == nil {
			rc.Unknown(fn+"/switch", v.fn.Pos(), "slow-path escape switch not found")
			continue
		}
		tag := core.ObjOf(info, bs.Stmt.Tag)
		for b := 0; b < 0x80; b++ {
			if !v.table.Bool(b) {
				continue
			}
			key := fmt.Sprintf("%s/case 0x%02x", fn, b)
			cc := bs.ClauseOf(byte(b))
			if cc == nil {
				rc.Bad(key, bs.Stmt.Pos(), "byte 0x%02x is marked in %s but the slow-path switch has no clause for it: it is copied raw", b, v.tableName)
				continue
			}
			if _, ok := emittedEscape(info, cc, tag, b); !ok {
				rc.Bad(key, cc.Pos(), "clause for byte 0x%02x appends no escape sequence", b)
				continue
			}
			rc.OK(key, cc.Pos(), "escaped")
		}
	}
}

// ---------- C17.R3: UTF-8 lead byte table ----------

func c17r3(rc *core.RC) {
	pk := rc.P.Pkg("encoder")
	t := core.EvalTable(pk, "first")
	if t == nil || t.Opaque || t.Len != 256 {
		rc.Unknown("encoder.first", token.NoPos, "table `first` not found or not constant")
		return
	}
	// constants are resolved by name through go/types so that renumbering them consistently is accepted
	get := func(n string) (int64, bool) {
		c, _ := pk.Types.Scope().Lookup(n).(*types.Const)
		if c == nil {
			return 0, false
		}
		return constant.Int64Val(constant.ToInt(c.Val()))
	}
	names := []string{"xx", "as", "s1", "s2", "s3", "s4", "s5", "s6", "s7"}
	val := map[string]int64{}
	for _, n := range names {
		v, ok := get(n)
		if !ok {
			rc.Unknown("encoder.first/const "+n, t.Pos, "constant not found")
			return
		}
		val[n] = v
	}
	want := func(b int) string {
		switch {
		case b < 0x80:
			return "as"
		case b < 0xC2:
			return "xx"
		case b < 0xE0:
			return "s1"
		case b == 0xE0:
			return "s2"
		case b < 0xED:
			return "s3"
		case b == 0xED:
			return "s4"
		case b < 0xF0:
			return "s3"
		case b == 0xF0:
			return "s5"
		case b < 0xF4:
			return "s6"
		case b == 0xF4:
			return "s7"
		}
		return "xx"
	}
	for b := 0; b < 256; b++ {
		got, _ := t.Int(b)
		w := want(b)
		rc.Check(got == val[w], fmt.Sprintf("encoder.first[0x%02x]", b), t.Pos, "lead-byte class is %#x, UTF-8 definition gives %s=%#x", got, w, val[w])
	}
}

// ---------- C04.R2: digit tables ----------

func c04r2(rc *core.RC) {
	enc, dec := rc.P.Pkg("encoder"), rc.P.Pkg("decoder")
	for _, spec := range []struct {
		name string
		le   bool
	}{{"intLELookup", true}, {"intBELookup", false}} {
		t := core.EvalTable(enc, spec.name)
		if t == nil || t.Opaque || t.Len != 100 {
			rc.Unknown("encoder."+spec.name, token.NoPos, "table not found, not constant, or not 100 entries")
			continue
		}
		for i := 0; i < 100; i++ {
			hi, lo := uint64('0'+i/10), uint64('0'+i%10)
			want := hi<<8 | lo // BE: first byte in memory is the high byte
			if spec.le {
				want = lo<<8 | hi
			}
			got, _ := t.Uint(i)
			rc.Check(got == want, fmt.Sprintf("encoder.%s[%d]", spec.name, i), t.Pos, "entry %#x, two digits of %d require %#x", got, i, want)
		}
	}
	for _, name := range []string{"pow10i64", "pow10u64"} {
		t := core.EvalTable(dec, name)
		if t == nil || t.Opaque {
			rc.Unknown("decoder."+name, token.NoPos, "table not found or not constant")
			continue
		}
		want := uint64(1)
		for i := 0; i < t.Len; i++ {
			got, _ := t.Uint(i)
			rc.Check(got == want, fmt.Sprintf("decoder.%s[%d]", name, i), t.Pos, "entry %d, need 10^%d = %d", got, i, want)
			want *= 10
		}
	}
	// hex <-> hexToInt
	hexObj, _ := enc.Types.Scope().Lookup("hex").(*types.Var)
	hexStr := ""
	if hexObj != nil {
		for _, f := range enc.Syntax {
			ast.Inspect(f, func(n ast.Node) bool {
				if vs, ok := n.(*ast.ValueSpec); ok {
					for i, id := range vs.Names {
						if enc.TypesInfo.Defs[id] == hexObj && i < len(vs.Values) {
							if cv := core.ConstValue(enc.TypesInfo, vs.Values[i]); cv != nil && cv.Kind() == constant.String {
								hexStr = constant.StringVal(cv)
							}
						}
					}
				}
				return true
			})
		}
	}
	h2i := core.EvalTable(dec, "hexToInt")
	if len(hexStr) != 16 || h2i == nil || h2i.Opaque {
		rc.Unknown("encoder.hex/decoder.hexToInt", token.NoPos, "hex digit tables not found or not constant")
		return
	}
	for i := 0; i < 16; i++ {
		got, _ := h2i.Int(int(hexStr[i]))
		rc.Check(got == int64(i), fmt.Sprintf("decoder.hexToInt[encoder.hex[%d]]", i), h2i.Pos, "encoder writes digit %q for %d, decoder reads it as %d", hexStr[i], i, got)
	}
}

// ---------- C04.R3: same base64 codec ----------

func c04r3(rc *core.RC) {
	p := rc.P
	type use struct {
		fn  string
		obj types.Object
		pos token.Pos
		dir string
	}
	var uses []use
	scan := func(short string, fds []*ast.FuncDecl) {
		for _, fd := range fds {
			if fd.Body == nil {
				continue
			}
			info := p.Info(fd)
			ast.Inspect(fd.Body, func(n ast.Node) bool {
				call, ok := n.(*ast.CallExpr)
				if !ok {
					return true
				}
				f := core.Callee(info, call)
				if f == nil || f.Pkg() == nil || f.Pkg().Path() != "encoding/base64" {
					return true
				}
				sel, ok := core.Unparen(call.Fun).(*ast.SelectorExpr)
				if !ok {
					return true
				}
				dir := ""
				switch f.Name() {
				case "Encode", "EncodeToString", "AppendEncode":
					dir = "encode"
				case "Decode", "DecodeString", "AppendDecode":
					dir = "decode"
				default:
					return true
				}
				obj, _ := core.FieldPath(info, sel.X)
				uses = append(uses, use{p.FuncName(fd), obj, call.Pos(), dir})
				rc.CallSites++
				return true
			})
		}
	}
	scan("encoder", p.Funcs("encoder"))
	scan("decoder", p.Funcs("decoder"))
	var encObj types.Object
	for _, u := range uses {
		if u.dir == "encode" {
			encObj = u.obj
		}
	}
	if encObj == nil {
		rc.Unknown("encoder/base64", token.NoPos, "no base64 encode call found in package encoder")
		return
	}
	for _, u := range uses {
		rc.Touch(u.fn)
		rc.Check(u.obj == encObj, u.fn+"/base64."+u.dir, u.pos, "uses codec %v; the []byte encoder uses %v", objName(u.obj), objName(encObj))
	}
}

func objName(o types.Object) string {
	if o == nil {
		return "<nil>"
	}
	if o.Pkg() != nil {
		return o.Pkg().Name() + "." + o.Name()
	}
	return o.Name()
}

// ---------- escape-letter dispatches in the decoder (shared by C04.R1, C05.R1, C17.R2) ----------

type escDispatch struct {
	fd   *ast.FuncDecl
	name string
	bs   *core.ByteSwitch
}

// escapeDispatches finds every switch in package decoder whose labels include
// all of b f n r t: those are the readers of the byte after a backslash.
func escapeDispatches(rc *core.RC) []escDispatch {
	var out []escDispatch
	for _, fd := range rc.P.Funcs("decoder") {
		if fd.Body == nil {
			continue
		}
		info := rc.P.Info(fd)
		ast.Inspect(fd.Body, func(n ast.Node) bool {
			sw, ok := n.(*ast.SwitchStmt)
			if !ok {
				return true
			}
			bs, _ := core.EvalByteSwitch(info, sw)
			if bs == nil {
				return true
			}
			for _, l := range "bfnrt" {
				if !bs.HasLabel(byte(l)) {
					return true
				}
			}
			// every reader treats \u in a clause of its own; the in-string dispatch of
			// stringBytes lists all ASCII letters in one clause and is not an escape reader
			if !bs.HasSingleton('u') {
				return true
			}
			out = append(out, escDispatch{fd, rc.P.FuncName(fd), bs})
			return true
		})
	}
	sort.Slice(out, func(i, j int) bool { return out[i].bs.Stmt.Pos() < out[j].bs.Stmt.Pos() })
	return out
}

// clauseConstByte returns the single byte constant a clause stores or returns
// (assignment of a byte constant, or a []byte{c} literal); ok=false if none.
func clauseConstByte(info *types.Info, cc *ast.CaseClause) (int, bool) {
	val, n := 0, 0
	for _, st := range cc.Body {
		ast.Inspect(st, func(x ast.Node) bool {
			switch s := x.(type) {
			case *ast.AssignStmt:
				if len(s.Rhs) == 1 {
					if v, ok := core.ConstInt(info, s.Rhs[0]); ok {
						val = int(v)
						n++
					}
				}
			case *ast.CompositeLit:
				if len(s.Elts) == 1 {
					if v, ok := core.ConstInt(info, s.Elts[0]); ok {
						val = int(v)
						n++
					}
				}
			}
			return true
		})
	}
	return val, n == 1
}

// clauseIsError: the clause body's last statement returns a non-nil error.
func clauseIsError(info *types.Info, cc *ast.CaseClause) bool {
	if len(cc.Body) == 0 {
		return false
	}
	r, ok := cc.Body[len(cc.Body)-1].(*ast.ReturnStmt)
	if !ok || len(r.Results) == 0 {
		return false
	}
	last := r.Results[len(r.Results)-1]
	if core.IsNilIdent(info, last) {
		return false
	}
	tv := info.Types[last]
	return core.IsErrorType(tv.Type) || types.Implements(tv.Type, types.Universe.Lookup("error").Type().Underlying().(*types.Interface))
}

// ---------- C04.R1: escape tables are mutually inverse ----------

func c04r1(rc *core.RC) {
	p := rc.P
	// encoder side: byte -> escape letter
	emitted := map[int]int{} // input byte -> letter
	where := map[int]token.Pos{}
	for _, v := range stringVariants(rc) {
		info := p.Info(v.fn)
		bs := escapeSwitch(info, v.fn)
		if bs == nil {
			rc.Unknown("encoder."+v.name+"/switch", v.fn.Pos(), "slow-path escape switch not found")
			continue
		}
		rc.Touch("encoder." + v.name)
		tag := core.ObjOf(info, bs.Stmt.Tag)
		for b := 0; b < 0x80; b++ {
			cc := bs.ClauseOf(byte(b))
			if cc == nil {
				continue
			}
			if l, ok := emittedEscape(info, cc, tag, b); ok {
				if old, dup := emitted[b]; dup && old != l {
					rc.Bad(fmt.Sprintf("encoder.%s/byte 0x%02x", v.name, b), cc.Pos(), "variants disagree on the escape for byte 0x%02x (%q vs %q)", b, rune(old), rune(l))
				}
				emitted[b] = l
				where[b] = cc.Pos()
			}
		}
	}
	if len(emitted) < 30 {
		rc.Unknown("encoder/emitted-escapes", token.NoPos, "only %d escaped bytes derived from the encoder (expected the 32 control bytes plus quote and backslash)", len(emitted))
	}
	disp := escapeDispatches(rc)
	um := core.EvalTable(p.Pkg("decoder"), "unescapeMap")
	if um == nil || um.Opaque {
		rc.Unknown("decoder.unescapeMap", token.NoPos, "table not found or not constant")
	}
	letters := map[int][]int{}
	for b, l := range emitted {
		letters[l] = append(letters[l], b)
	}
	var ls []int
	for l := range letters {
		ls = append(ls, l)
	}
	sort.Ints(ls)
	for _, l := range ls {
		srcs := letters[l]
		sort.Ints(srcs)
		for _, d := range disp {
			rc.Touch(d.name)
			info := p.Info(d.fd)
			key := fmt.Sprintf("%s/escape-dispatch/letter %q", d.name, rune(l))
			cc := d.bs.ClauseOf(byte(l))
			explicit := d.bs.HasLabel(byte(l))
			if cc == nil || !explicit || clauseIsError(info, cc) {
				rc.Bad(key, d.bs.Stmt.Pos(), "encoder emits \\%c (for bytes %s) but this reader has no accepting clause for it", rune(l), core.FmtBytes(srcs))
				continue
			}
			if l != 'u' {
				if c, ok := clauseConstByte(info, cc); ok {
					if len(srcs) != 1 || srcs[0] != c {
						rc.Bad(key, cc.Pos(), "reader decodes \\%c to 0x%02x but the encoder emits it for %s", rune(l), c, core.FmtBytes(srcs))
						continue
					}
				}
			}
			rc.OK(key, cc.Pos(), "accepted")
		}
		if um != nil && !um.Opaque && l != 'u' {
			got, _ := um.Int(l)
			rc.Check(len(srcs) == 1 && int(got) == srcs[0], fmt.Sprintf("decoder.unescapeMap[%q]", rune(l)), um.Pos, "unescapeMap maps \\%c to 0x%02x; encoder emits it for %s", rune(l), got, core.FmtBytes(srcs))
		}
	}
	_ = where
}

// ---------- C05.R4: class tables hold exactly the RFC sets ----------

func setOf(s string) map[int]bool {
	m := map[int]bool{}
	for i := 0; i < len(s); i++ {
		m[int(s[i])] = true
	}
	return m
}

func c05r4(rc *core.RC) {
	specs := []struct {
		pkg, name, what string
		want            map[int]bool
	}{
		{"decoder", "floatTable", "number characters 0-9 . e E + -", setOf("0123456789.eE+-")},
		{"encoder", "floatTable", "number characters 0-9 . e E + -", setOf("0123456789.eE+-")},
		{"decoder", "numTable", "digits", setOf("0123456789")},
		{"decoder", "isWhiteSpace", "JSON whitespace", setOf(" \n\t\r")},
		{"encoder", "isWhiteSpace", "JSON whitespace", setOf(" \n\t\r")},
		{"decoder", "validEndNumberChar", "NUL, whitespace and , : } ]", setOf("\x00 \n\t\r,:}]")},
	}
	for _, s := range specs {
		t := core.EvalTable(rc.P.Pkg(s.pkg), s.name)
		if t == nil && s.name == "isWhiteSpace" {
			// the whitespace class may be written as case labels instead; C05.R7 decides the skippers either way
			rc.Note(s.pkg+"."+s.name, token.NoPos, "no whitespace table in this package")
			continue
		}
		if t == nil || t.Opaque || t.Len != 256 {
			rc.Unknown(s.pkg+"."+s.name, token.NoPos, "class table not found or not constant")
			continue
		}
		for b := 0; b < 256; b++ {
			rc.Check(t.Bool(b) == s.want[b], fmt.Sprintf("%s.%s[0x%02x]", s.pkg, s.name, b), t.Pos, "table says %v; %s requires %v", t.Bool(b), s.what, s.want[b])
		}
	}
	t := core.EvalTable(rc.P.Pkg("decoder"), "hexToInt")
	if t == nil || t.Opaque {
		rc.Unknown("decoder.hexToInt", token.NoPos, "table not found or not constant")
		return
	}
	for b := 0; b < 256; b++ {
		want := int64(0)
		switch {
		case b >= '0' && b <= '9':
			want = int64(b - '0')
		case b >= 'a' && b <= 'f':
			want = int64(b-'a') + 10
		case b >= 'A' && b <= 'F':
			want = int64(b-'A') + 10
		}
		got, _ := t.Int(b)
		rc.Check(got == want, fmt.Sprintf("decoder.hexToInt[0x%02x]", b), t.Pos, "entry %d, hex value is %d", got, want)
	}
}

// ---- C17.R4: U+2028 / U+2029 are recognised by all three of their bytes ----

func c17r4(rc *core.RC) {
	p := rc.P
	fd := p.Func("encoder", "decodeRuneInString")
	if fd == nil {
		rc.Unknown("encoder.decodeRuneInString", token.NoPos, "not found")
		return
	}
	rc.Touch("encoder.decodeRuneInString")
	info := p.Info(fd)
	// locals holding s[k]
	byteOf := map[types.Object]int64{}
	ast.Inspect(fd.Body, func(n ast.Node) bool {
		if as, ok := n.(*ast.AssignStmt); ok && len(as.Lhs) == 1 && len(as.Rhs) == 1 {
			if ix, ok := core.Unparen(as.Rhs[0]).(*ast.IndexExpr); ok {
				if k, ok := core.ConstInt(info, ix.Index); ok {
					if o := core.ObjOf(info, as.Lhs[0]); o != nil {
						byteOf[o] = k
					}
				}
			}
		}
		return true
	})
	want := map[string][3]int64{"lineSepState": {0xE2, 0x80, 0xA8}, "paragraphSepState": {0xE2, 0x80, 0xA9}}
	found := 0
	ast.Inspect(fd.Body, func(n ast.Node) bool {
		ret, ok := n.(*ast.ReturnStmt)
		if !ok || len(ret.Results) == 0 {
			return true
		}
		c, ok := core.ObjOf(info, ret.Results[0]).(*types.Const)
		if !ok {
			return true
		}
		w, isSep := want[c.Name()]
		if !isSep {
			return true
		}
		found++
		eq := map[int64]int64{} // byte index -> required value
		path := core.PathTo(fd.Body, ret)
		for i, pn := range path {
			switch x := pn.(type) {
			case *ast.IfStmt:
				if i+1 < len(path) && path[i+1] == ast.Node(x.Body) {
					for _, cj := range conjuncts(x.Cond) {
						if be, ok := core.Unparen(cj).(*ast.BinaryExpr); ok && be.Op == token.EQL {
							if k, ok := byteOf[core.ObjOf(info, be.X)]; ok {
								if v, ok := core.ConstInt(info, be.Y); ok {
									eq[k] = v
								}
							}
						}
					}
				}
			case *ast.CaseClause:
				if i >= 2 {
					if sw, ok := path[i-2].(*ast.SwitchStmt); ok && sw.Tag != nil && len(x.List) == 1 {
						if k, ok := byteOf[core.ObjOf(info, sw.Tag)]; ok {
							if v, ok := core.ConstInt(info, x.List[0]); ok {
								eq[k] = v
							}
						}
					}
				}
			}
		}
		key := "encoder.decodeRuneInString/return " + c.Name()
		good := true
		var missing []string
		for k := int64(0); k < 3; k++ {
			if v, ok := eq[k]; !ok || v != w[k] {
				good = false
				missing = append(missing, fmt.Sprintf("s[%d]==%#x", k, w[k]))
			}
		}
		if good {
			rc.OK(key, ret.Pos(), "returned only when s[0..2] == %#x %#x %#x", w[0], w[1], w[2])
		} else {
			rc.Bad(key, ret.Pos(), "the separator state is returned without requiring %s: other valid three-byte characters are rewritten as \\u2028/\\u2029 and do not survive a round trip", strings.Join(missing, ", "))
		}
		return true
	})
	if found < 2 {
		rc.Unknown("encoder.decodeRuneInString/separator-returns", fd.Pos(), "expected returns of lineSepState and paragraphSepState, found %d", found)
	}
}

// ---- C17.R5 hand-written surrogate arithmetic equals utf16.DecodeRune ----

// Wherever the decoder combines a high and a low surrogate with its own arithmetic (an assignment
// whose right-hand side mentions 0xd800 and 0xdc00 and two rune variables), the expression is folded
// for every high surrogate against a spread of low surrogates and for every low surrogate against a
// spread of high ones, and compared with 0x10000 + (hi-0xD800)<<10 + (lo-0xDC00).
func c17r5(rc *core.RC) {
	p := rc.P
	n := 0
	for _, fd := range p.Funcs("decoder") {
		if fd.Body == nil {
			continue
		}
		info := p.Info(fd)
		fn := p.FuncName(fd)
		k := 0
		ast.Inspect(fd.Body, func(m ast.Node) bool {
			as, ok := m.(*ast.AssignStmt)
			if !ok || len(as.Lhs) != 1 || len(as.Rhs) != 1 || as.Tok != token.ASSIGN && as.Tok != token.DEFINE {
				return true
			}
			hasHi, hasLo := false, false
			vars := map[types.Object]bool{}
			ast.Inspect(as.Rhs[0], func(x ast.Node) bool {
				e, ok := x.(ast.Expr)
				if !ok {
					return true
				}
				if v, ok := core.ConstInt(info, e); ok {
					if v == 0xd800 {
						hasHi = true
					}
					if v == 0xdc00 {
						hasLo = true
					}
					return false
				}
				if id, ok := e.(*ast.Ident); ok {
					if v, ok := info.Uses[id].(*types.Var); ok && !v.IsField() && v.Pkg() != nil && v.Parent() != v.Pkg().Scope() {
						vars[v] = true
					}
				}
				return true
			})
			if !hasHi || !hasLo || len(vars) != 2 {
				return true
			}
			if _, isBin := core.Unparen(as.Rhs[0]).(*ast.BinaryExpr); !isBin {
				return true
			}
			n++
			k++
			rc.Touch(fn)
			key := fmt.Sprintf("%s/surrogate-combination#%d", fn, k)
			var vs []types.Object
			for v := range vars {
				vs = append(vs, v)
			}
			sort.Slice(vs, func(i, j int) bool { return vs[i].Pos() < vs[j].Pos() })
			bp := &core.BytePred{P: p}
			his := []int64{0xD800, 0xD801, 0xD83D, 0xD840, 0xD955, 0xDAAA, 0xDB40, 0xDBFF}
			los := []int64{0xDC00, 0xDC01, 0xDD55, 0xDE00, 0xDEAA, 0xDFFF}
			try := func(hi, lo types.Object) (bool, string, bool) {
				check := func(h, l int64) (bool, string, bool) {
					bp.Steps = 0
					got, ok := bp.EvalInt(info, as.Rhs[0], core.BindAll(map[types.Object]int64{hi: h, lo: l}))
					if !ok {
						return false, "", false
					}
					want := 0x10000 + (h-0xD800)<<10 + (l - 0xDC00)
					if got != want {
						return false, fmt.Sprintf("\\u%04x\\u%04x gives U+%X, the pair denotes U+%X", h, l, got, want), true
					}
					return true, "", true
				}
				for h := int64(0xD800); h <= 0xDBFF; h++ {
					for _, l := range los {
						if ok, why, ev := check(h, l); !ev || !ok {
							return ok, why, ev
						}
					}
				}
				for l := int64(0xDC00); l <= 0xDFFF; l++ {
					for _, h := range his {
						if ok, why, ev := check(h, l); !ev || !ok {
							return ok, why, ev
						}
					}
				}
				return true, "", true
			}
			ok1, why1, ev1 := try(vs[0], vs[1])
			ok2, _, ev2 := try(vs[1], vs[0])
			switch {
			case !ev1 && !ev2:
				rc.Unknown(key, as.Pos(), "the expression `%s` is outside the folded subset", core.Src(p.Fset, as.Rhs[0]))
			case ok1 || ok2:
				rc.OK(key, as.Pos(), "`%s` equals utf16.DecodeRune on all 1024 high × 6 low and 8 high × 1024 low surrogates", core.Src(p.Fset, as.Rhs[0]))
			default:
				rc.Bad(key, as.Pos(), "`%s` is not the code point of the surrogate pair: %s", core.Src(p.Fset, as.Rhs[0]), why1)
			}
			return true
		})
	}
	if n < 1 {
		rc.Unknown("decoder/surrogate-combination", token.NoPos, "no hand-written surrogate combination found (unescapeString expected)")
	}
}

// ---- C17.R6 the encoder's UTF-8 decoder accepts exactly the well-formed lead/second byte pairs ----

// decodeRuneInString classifies the lead byte with the table `first` (class, accept-range index,
// length) and then range-tests the second byte in a switch over the accept-range index. Both are
// folded: for each of the 256 lead bytes the table entry gives length and range index; the clause for
// that index is evaluated for each of the 256 second bytes. The result is compared with Unicode
// Table 3-7 (well-formed UTF-8 byte sequences).
func c17r6(rc *core.RC) {
	p := rc.P
	fd := p.Func("encoder", "decodeRuneInString")
	if fd == nil {
		rc.Unknown("encoder.decodeRuneInString", token.NoPos, "not found")
		return
	}
	rc.Touch("encoder.decodeRuneInString")
	info := p.Info(fd)
	tbl := core.EvalTable(p.Pkg("encoder"), "first")
	if tbl == nil || tbl.Opaque || tbl.Len != 256 {
		rc.Unknown("encoder.first", token.NoPos, "lead-byte table not found or not constant")
		return
	}
	var asC int64
	ok1 := false
	if c, ok := p.Pkg("encoder").Types.Scope().Lookup("as").(*types.Const); ok {
		asC, ok1 = constInt64(c)
	}
	if !ok1 {
		rc.Unknown("encoder.as", token.NoPos, "constant `as` not found")
		return
	}
	// the switch over x >> 4 and the variable tested in its clauses
	var sw *ast.SwitchStmt
	ast.Inspect(fd.Body, func(m ast.Node) bool {
		if s, ok := m.(*ast.SwitchStmt); ok && sw == nil && s.Tag != nil {
			if be, ok := core.Unparen(s.Tag).(*ast.BinaryExpr); ok && be.Op == token.SHR {
				sw = s
			}
		}
		return true
	})
	if sw == nil {
		rc.Unknown("encoder.decodeRuneInString/accept-switch", fd.Pos(), "switch over the accept-range index not found")
		return
	}
	clauseOf := map[int64]*ast.CaseClause{}
	for _, st := range sw.Body.List {
		cc := st.(*ast.CaseClause)
		for _, l := range cc.List {
			if v, ok := core.ConstInt(info, l); ok {
				clauseOf[v] = cc
			}
		}
	}
	bp := &core.BytePred{P: p}
	rejects := func(cc *ast.CaseClause, b int64) (bool, bool) {
		for _, st := range cc.Body {
			ifs, ok := st.(*ast.IfStmt)
			if !ok {
				return false, false
			}
			var v types.Object
			ast.Inspect(ifs.Cond, func(k ast.Node) bool {
				if id, ok := k.(*ast.Ident); ok {
					if o, ok := info.Uses[id].(*types.Var); ok && !o.IsField() && o.Pkg() != nil && o.Parent() != o.Pkg().Scope() {
						v = o
					}
				}
				return true
			})
			if v == nil {
				return false, false
			}
			bp.Steps = 0
			r, ok := bp.EvalBool(info, ifs.Cond, core.Bind(v, b))
			if !ok {
				return false, false
			}
			if r {
				return true, true
			}
		}
		return false, true
	}
	wantRange := func(lead int) (lo, hi, size int) {
		switch {
		case lead >= 0xC2 && lead <= 0xDF:
			return 0x80, 0xBF, 2
		case lead == 0xE0:
			return 0xA0, 0xBF, 3
		case lead >= 0xE1 && lead <= 0xEC, lead == 0xEE, lead == 0xEF:
			return 0x80, 0xBF, 3
		case lead == 0xED:
			return 0x80, 0x9F, 3
		case lead == 0xF0:
			return 0x90, 0xBF, 4
		case lead >= 0xF1 && lead <= 0xF3:
			return 0x80, 0xBF, 4
		case lead == 0xF4:
			return 0x80, 0x8F, 4
		}
		return 0, -1, 1
	}
	bad := 0
	for lead := 0; lead < 256; lead++ {
		x, _ := tbl.Int(lead)
		lo, hi, size := wantRange(lead)
		key := fmt.Sprintf("encoder.decodeRuneInString/lead 0x%02X", lead)
		if x >= asC {
			// one-byte classes: ASCII or invalid
			rc.Check(size == 1, key, tbl.Pos, "the lead-byte table marks 0x%02X as a one-byte class; UTF-8 gives it a %d-byte sequence", lead, size)
			continue
		}
		if size == 1 {
			rc.Bad(key, tbl.Pos, "the lead-byte table gives 0x%02X a multi-byte class; it cannot start a well-formed sequence", lead)
			continue
		}
		if int(x&7) != size {
			rc.Bad(key, tbl.Pos, "the lead-byte table gives 0x%02X length %d; UTF-8 length is %d", lead, x&7, size)
			continue
		}
		cc := clauseOf[x>>4]
		if cc == nil {
			rc.Unknown(key, sw.Pos(), "no clause for accept-range index %d", x>>4)
			continue
		}
		var extra, missing []int
		und := false
		for b := 0; b < 256; b++ {
			rej, ok := rejects(cc, int64(b))
			if !ok {
				und = true
				break
			}
			want := b >= lo && b <= hi
			if !rej && !want {
				extra = append(extra, b)
			}
			if rej && want {
				missing = append(missing, b)
			}
		}
		switch {
		case und:
			rc.Unknown(key, cc.Pos(), "the second-byte test of this accept range is outside the folded subset")
		case len(extra) == 0 && len(missing) == 0:
			rc.OK(key, cc.Pos(), "second bytes 0x%02X-0x%02X accepted, all others rejected", lo, hi)
		default:
			bad++
			rc.Bad(key, cc.Pos(), "after lead byte 0x%02X the second bytes %s are accepted and %s rejected, against the well-formed range 0x%02X-0x%02X: ill-formed UTF-8 (for 0xED: encoded surrogates) is copied to the output instead of being replaced by U+FFFD", lead, orNone(core.FmtBytes(extra)), orNone(core.FmtBytes(missing)), lo, hi)
		}
	}
}

// ---------- C17.R7: the decoder's simple escapes have their RFC 8259 values ----------

// C04.R1 compares the decoder with what the encoder emits, which leaves letters the encoder never
// uses (\f and \b are written as \u escapes by some appenders, \/ by none) unchecked. This rule
// compares every escape-letter dispatch of the decoder, and unescapeMap, with the table of RFC 8259
// section 7 itself.
func c17r7(rc *core.RC) {
	p := rc.P
	rfc := map[byte]int{'"': '"', '\\': '\\', '/': '/', 'b': 8, 'f': 12, 'n': 10, 'r': 13, 't': 9}
	letters := []byte{'"', '\\', '/', 'b', 'f', 'n', 'r', 't'}
	for _, d := range escapeDispatches(rc) {
		rc.Touch(d.name)
		info := p.Info(d.fd)
		for _, l := range letters {
			key := fmt.Sprintf("%s/rfc-escape/letter %q", d.name, rune(l))
			cc := d.bs.ClauseOf(l)
			if cc == nil || !d.bs.HasLabel(l) || clauseIsError(info, cc) {
				rc.Bad(key, d.bs.Stmt.Pos(), "RFC 8259 escape \\%c has no accepting clause in this reader", rune(l))
				continue
			}
			c, ok := clauseConstByte(info, cc)
			if !ok {
				// a clause shared by several letters that stores the letter itself is right only for the
				// three self-escapes
				if l == '"' || l == '\\' || l == '/' {
					rc.OK(key, cc.Pos(), "accepted; the clause stores no constant (self-escape)")
				} else if len(cc.List) > 1 && !core.ContainsAssign(cc) {
					rc.OK(key, cc.Pos(), "accepted by a clause shared with other letters that stores nothing: a validating scan, the value comes from unescapeMap")
				} else {
					rc.Unknown(key, cc.Pos(), "the byte this clause decodes \\%c to could not be determined", rune(l))
				}
				continue
			}
			rc.Check(c == rfc[l], key, cc.Pos(), "reader decodes \\%c to 0x%02x; RFC 8259 says 0x%02x", rune(l), c, rfc[l])
		}
	}
	um := core.EvalTable(p.Pkg("decoder"), "unescapeMap")
	if um == nil || um.Opaque {
		rc.Unknown("decoder.unescapeMap", token.NoPos, "table not found or not constant")
		return
	}
	for _, l := range letters {
		got, _ := um.Int(int(l))
		rc.Check(int(got) == rfc[l], fmt.Sprintf("decoder.unescapeMap[%q]/rfc", rune(l)), um.Pos, "unescapeMap maps \\%c to 0x%02x; RFC 8259 says 0x%02x", rune(l), got, rfc[l])
	}
}

// ---- C17.R8 two \u escapes are taken as one character only when they are a high and a low surrogate ----

// Wherever the decoder combines two \u escapes into one rune — by utf16.DecodeRune or by the
// hand-written arithmetic of C17.R5 — the second escape may be consumed only for a valid pair. Either
// the result of utf16.DecodeRune is compared with unicode.ReplacementChar (the documented way to
// learn that the two did not pair up), or the conditions on the path to the combination, evaluated
// for every class of first and second escape (non-surrogate, lowest/highest high, lowest/highest
// low, unreadable), hold only when the first is a high and the second a low surrogate.
func c17r8(rc *core.RC) {
	p := rc.P
	n := 0
	for _, fd := range p.Funcs("decoder") {
		if fd.Body == nil {
			continue
		}
		info := p.Info(fd)
		fn := p.FuncName(fd)
		type site struct {
			node   ast.Node
			a, b   types.Object
			decode *ast.CallExpr
		}
		var sites []site
		ast.Inspect(fd.Body, func(m ast.Node) bool {
			switch x := m.(type) {
			case *ast.CallExpr:
				if core.CalleeName(info, x) == "utf16.DecodeRune" && len(x.Args) == 2 {
					a, b := core.ObjOf(info, x.Args[0]), core.ObjOf(info, x.Args[1])
					if a != nil && b != nil {
						sites = append(sites, site{x, a, b, x})
					}
				}
			case *ast.AssignStmt:
				if len(x.Lhs) != 1 || len(x.Rhs) != 1 {
					return true
				}
				if _, isBin := core.Unparen(x.Rhs[0]).(*ast.BinaryExpr); !isBin {
					return true
				}
				hasHi, hasLo := false, false
				var vars []types.Object
				seen := map[types.Object]bool{}
				ast.Inspect(x.Rhs[0], func(y ast.Node) bool {
					e, ok := y.(ast.Expr)
					if !ok {
						return true
					}
					if v, ok := core.ConstInt(info, e); ok {
						hasHi = hasHi || v == 0xd800
						hasLo = hasLo || v == 0xdc00
						return false
					}
					if id, ok := e.(*ast.Ident); ok {
						if v, ok := info.Uses[id].(*types.Var); ok && !v.IsField() && v.Pkg() != nil && v.Parent() != v.Pkg().Scope() && !seen[v] {
							seen[v] = true
							vars = append(vars, v)
						}
					}
					return true
				})
				if hasHi && hasLo && len(vars) == 2 {
					sort.Slice(vars, func(i, j int) bool { return vars[i].Pos() < vars[j].Pos() })
					sites = append(sites, site{x, vars[0], vars[1], nil})
				}
			}
			return true
		})
		for k, s := range sites {
			n++
			rc.Touch(fn)
			key := fmt.Sprintf("%s/escape-pair#%d only-for-valid-pairs", fn, k+1)
			// (A) DecodeRune whose result is compared with the replacement character
			if s.decode != nil && decodeResultCompared(info, fd, s.decode) {
				rc.OK(key, s.node.Pos(), "the result of utf16.DecodeRune is compared with unicode.ReplacementChar before the second escape is consumed")
				continue
			}
			// (B) fold the path condition
			type cond struct {
				e   ast.Expr
				pos bool
			}
			var conds []cond
			path := core.PathTo(fd.Body, s.node)
			for i, pn := range path {
				ifs, ok := pn.(*ast.IfStmt)
				if !ok || i+1 >= len(path) {
					continue
				}
				switch path[i+1] {
				case ast.Node(ifs.Body):
					conds = append(conds, cond{ifs.Cond, true})
				case ifs.Else:
					conds = append(conds, cond{ifs.Cond, false})
				}
			}
			bp := &core.BytePred{P: p}
			reps := []int64{-1, 0x41, 0xD7FF, 0xD800, 0xDBFF, 0xDC00, 0xDFFF, 0xE000}
			isHi := func(v int64) bool { return v >= 0xD800 && v <= 0xDBFF }
			isLo := func(v int64) bool { return v >= 0xDC00 && v <= 0xDFFF }
			// the two variables: which is first is decided by which assignment of roles never lets an invalid pair through
			roleOK := func(first, second types.Object) (bool, string) {
				used := 0
				for _, a := range reps {
					for _, b := range reps {
						env := core.BindAll(map[types.Object]int64{first: a, second: b})
						all := true
						for _, c := range conds {
							bp.Steps = 0
							v, ok := bp.EvalBool(info, c.e, env)
							if !ok {
								continue
							}
							used++
							if v != c.pos {
								all = false
								break
							}
						}
						if all && !(isHi(a) && isLo(b)) {
							return false, fmt.Sprintf("first escape %#x, second %#x reach the combination", a, b)
						}
					}
				}
				return used > 0, "no condition on the path constrains the two escapes"
			}
			ok1, why1 := roleOK(s.a, s.b)
			ok2, _ := roleOK(s.b, s.a)
			if ok1 || ok2 {
				rc.OK(key, s.node.Pos(), "the conditions on the path hold only for a high surrogate followed by a low one")
			} else {
				rc.Bad(key, s.node.Pos(), "two escapes are combined into one character although they need not be a high and a low surrogate (%s): the second escape is swallowed and a character of the input is lost", why1)
			}
		}
	}
	if n < 3 {
		rc.Unknown("decoder/escape-pair-sites", token.NoPos, "found %d places that combine two \\u escapes (4 confirmed)", n)
	}
}

// decodeResultCompared: the call is an operand of ==/!= with the constant 0xFFFD, or its result is
// bound to a variable that is.
func decodeResultCompared(info *types.Info, fd *ast.FuncDecl, call *ast.CallExpr) bool {
	isRepl := func(e ast.Expr) bool { v, ok := core.ConstInt(info, e); return ok && v == 0xFFFD }
	var res types.Object
	found := false
	ast.Inspect(fd.Body, func(m ast.Node) bool {
		switch x := m.(type) {
		case *ast.AssignStmt:
			for i, r := range x.Rhs {
				if core.Unparen(r) == ast.Expr(call) && i < len(x.Lhs) && len(x.Lhs) == len(x.Rhs) {
					res = core.ObjOf(info, x.Lhs[i])
				}
			}
		case *ast.BinaryExpr:
			if x.Op == token.EQL || x.Op == token.NEQ {
				for _, pair := range [][2]ast.Expr{{x.X, x.Y}, {x.Y, x.X}} {
					if isRepl(pair[1]) {
						if core.Unparen(pair[0]) == ast.Expr(call) {
							found = true
						}
						if res != nil && core.ObjOf(info, pair[0]) == res {
							found = true
						}
					}
				}
			}
		}
		return true
	})
	return found
}

// ---- C04.R5 decimal text becomes a float only by a correctly rounding conversion ----

// The float decoders hand the text of a number to strconv.ParseFloat, which rounds correctly. A hand-written
// conversion of the form float64(mantissa) / 10^k (or * 10^k) gives the correctly rounded result only under the
// classical exactness conditions: the mantissa is below 2^53 (at most 15 decimal digits) and the power of ten is at
// most 10^22, so that both operands are exact and the one operation rounds once. Any such arithmetic in the decoder
// has to stand under guards that establish both bounds; otherwise some 16- or 17-digit literals are rounded twice and
// Unmarshal(Marshal(f)) returns a neighbour of f.
func c04r5(rc *core.RC) {
	p := rc.P
	n := 0
	isFloat := func(t types.Type) bool {
		b, ok := t.Underlying().(*types.Basic)
		return ok && b.Info()&types.IsFloat != 0
	}
	for _, fd := range p.Funcs("decoder") {
		if fd.Body == nil {
			continue
		}
		info := p.Info(fd)
		fn := p.FuncName(fd)
		k := 0
		ast.Inspect(fd.Body, func(m ast.Node) bool {
			be, ok := m.(*ast.BinaryExpr)
			if !ok || (be.Op != token.QUO && be.Op != token.MUL) {
				return true
			}
			tv, has := info.Types[be]
			if !has || !isFloat(tv.Type) || tv.Value != nil {
				return true
			}
			// float64(<integer variable>) on one side
			var mant types.Object
			for _, side := range []ast.Expr{be.X, be.Y} {
				if c, isCall := core.Unparen(side).(*ast.CallExpr); isCall && len(c.Args) == 1 {
					if t, isT := info.Types[c.Fun]; isT && t.IsType() && isFloat(t.Type) {
						if o := core.ObjOf(info, c.Args[0]); o != nil {
							if b, isBasic := o.Type().Underlying().(*types.Basic); isBasic && b.Info()&types.IsInteger != 0 {
								mant = o
							}
						}
					}
				}
			}
			if mant == nil {
				return true
			}
			n++
			k++
			rc.Touch(fn)
			key := fmt.Sprintf("%s/float-arithmetic#%d exactness-guards", fn, k)
			// (1) an explicit bound on the mantissa: mant < C or mant <= C with C <= 2^53, on a returning branch's negation
			const two53 = int64(1) << 53
			mantBound := false
			digitBound := int64(-1)
			// counters: integer variables incremented in the function
			counters := map[types.Object]bool{}
			ast.Inspect(fd.Body, func(y ast.Node) bool {
				if ids, isInc := y.(*ast.IncDecStmt); isInc && ids.Tok == token.INC {
					if o := core.ObjOf(info, ids.X); o != nil {
						counters[o] = true
					}
				}
				return true
			})
			// comparisons that end the conversion on their own: whole disjuncts of the condition of a returning if
			var exits []*ast.BinaryExpr
			ast.Inspect(fd.Body, func(y ast.Node) bool {
				ifs, isIf := y.(*ast.IfStmt)
				if !isIf {
					return true
				}
				returns := false
				for _, st := range ifs.Body.List {
					if _, isRet := st.(*ast.ReturnStmt); isRet {
						returns = true
					}
				}
				if !returns {
					return true
				}
				var disj func(e ast.Expr)
				disj = func(e ast.Expr) {
					e = core.Unparen(e)
					if b, isBin := e.(*ast.BinaryExpr); isBin {
						if b.Op == token.LOR {
							disj(b.X)
							disj(b.Y)
							return
						}
						if b.Op != token.LAND {
							exits = append(exits, b)
						}
					}
				}
				disj(ifs.Cond)
				return true
			})
			for _, c := range exits {
				lhs := core.ObjOf(info, c.X)
				v, isC := core.ConstInt(info, c.Y)
				if lhs == nil || !isC {
					continue
				}
				if lhs == mant {
					switch c.Op {
					case token.GEQ, token.GTR: // leaves when mant >= C
						if v <= two53 {
							mantBound = true
						}
					}
				}
				if counters[lhs] {
					switch c.Op {
					case token.EQL, token.GEQ: // no further digit is taken once the counter has reached v
						if digitBound < 0 || v < digitBound {
							digitBound = v
						}
					case token.GTR:
						if digitBound < 0 || v+1 < digitBound {
							digitBound = v + 1
						}
					}
				}
			}
			switch {
			case mantBound:
				rc.OK(key, be.Pos(), "the integer mantissa %s is tested against a bound of at most 2^53 before it is converted: it is exact as a float64", mant.Name())
			case digitBound >= 0 && digitBound <= 15:
				rc.OK(key, be.Pos(), "at most %d decimal digits are accumulated into %s: below 2^53, exact as a float64", digitBound, mant.Name())
			case digitBound > 15:
				rc.Bad(key, be.Pos(), "%s converts a mantissa of up to %d decimal digits with float arithmetic (%s): a 16-digit mantissa can exceed 2^53, it is rounded when converted and the operation rounds again, so some literals decode to the neighbouring float64 (9.468889844902423 comes back as 9.468889844902424) where strconv.ParseFloat and encoding/json round once", fn, digitBound, core.Src(p.Fset, be))
			default:
				rc.Bad(key, be.Pos(), "%s converts decimal text with float arithmetic (%s) and no bound on the number of digits or on the mantissa (< 2^53) was found: the result is not the correctly rounded value for long literals", fn, core.Src(p.Fset, be))
			}
			return true
		})
	}
	// the conversions that exist today
	m := 0
	for _, fd := range p.Funcs("decoder") {
		if fd.Body == nil {
			continue
		}
		info := p.Info(fd)
		ast.Inspect(fd.Body, func(y ast.Node) bool {
			if c, ok := y.(*ast.CallExpr); ok && core.CalleeName(info, c) == "strconv.ParseFloat" {
				m++
			}
			return true
		})
	}
	if n == 0 {
		rc.Check(m >= 4, "decoder/text-to-float-conversions", token.NoPos, "decimal text becomes a float only through strconv.ParseFloat (%d call sites); the decoder has no float arithmetic on an integer mantissa", m)
	}
}

// ---- C17.R9 the encoder's UTF-8 decoder, folded over whole sequences ----

// decodeRuneInString classifies up to four bytes: a pure function of constant tables, comparisons and two switches. It
// is folded for a systematic family of byte sequences (every lead byte; for each, every second byte; for the three-
// and four-byte leads every third byte against boundary fourth bytes and every fourth byte against boundary third
// bytes; truncated sequences) and compared with Unicode's definition of well-formed UTF-8 (utf8.DecodeRuneInString of
// the analyser's own standard library): same verdict, same length, and the separator states exactly for U+2028 and
// U+2029. C17.R6 and C17.R4 decide the first two bytes by shape; this rule decides the whole function by value.
func c17r9(rc *core.RC) {
	p := rc.P
	fd := p.Func("encoder", "decodeRuneInString")
	key := "encoder.decodeRuneInString/whole-sequences"
	if fd == nil || fd.Body == nil || fd.Type.Params.NumFields() != 1 {
		rc.Unknown(key, token.NoPos, "not found")
		return
	}
	rc.Touch("encoder.decodeRuneInString")
	info := p.Info(fd)
	sObj := info.Defs[fd.Type.Params.List[0].Names[0]]
	pk := p.Pkg("encoder")
	state := func(name string) int64 {
		if c, ok := pk.Types.Scope().Lookup(name).(*types.Const); ok {
			if v, exact := constInt64(c); exact {
				return v
			}
		}
		return -1
	}
	stValid, stErr, stLine, stPara := state("validUTF8State"), state("runeErrorState"), state("lineSepState"), state("paragraphSepState")
	if stValid < 0 || stErr < 0 || stLine < 0 || stPara < 0 {
		rc.Unknown(key, fd.Pos(), "the state constants were not found")
		return
	}
	// every lead byte from 0xE0; quick tier: three second bytes, eight boundary bytes; thorough tier: six and sixteen
	boundary := []byte{0x00, 0x22, 0x7f, 0x80, 0xa8, 0xa9, 0xbf, 0xc0}
	seconds := []byte{0x80, 0x90, 0xa0}
	longLead := map[int]bool{}
	for l := 0xE0; l < 256; l++ {
		longLead[l] = true
	}
	if rc.Tier == "thorough" {
		boundary = []byte{0x00, 0x22, 0x3f, 0x40, 0x5c, 0x7f, 0x80, 0x8f, 0x90, 0x9f, 0xa0, 0xa8, 0xa9, 0xbf, 0xc0, 0xff}
		seconds = []byte{0x80, 0x8f, 0x90, 0x9f, 0xa0, 0xbf}
	}
	var seqs [][]byte
	for lead := 0; lead < 256; lead++ {
		seqs = append(seqs, []byte{byte(lead)})
		for s1 := 0; s1 < 256; s1++ {
			seqs = append(seqs, []byte{byte(lead), byte(s1)})
		}
		if !longLead[lead] {
			continue
		}
		// second bytes of this lead (valid for some leads, not for others), then the third and fourth
		for _, s1 := range seconds {
			for s2 := 0; s2 < 256; s2++ {
				seqs = append(seqs, []byte{byte(lead), s1, byte(s2)})
				for _, s3 := range boundary {
					seqs = append(seqs, []byte{byte(lead), s1, byte(s2), s3})
				}
			}
			for _, s2 := range boundary {
				for s3 := 0; s3 < 256; s3++ {
					seqs = append(seqs, []byte{byte(lead), s1, s2, byte(s3)})
				}
			}
		}
	}
	bp := &core.BytePred{P: p, Strings: map[types.Object][]byte{}}
	var bad []string
	n := 0
	for _, sq := range seqs {
		bp.Steps = 0
		bp.OutOfRange = ""
		bp.Strings[sObj] = sq
		_, _, done, ok := bp.ExecList(info, fd.Body.List, core.BindAll(nil))
		if (!ok || !done) && bp.OutOfRange != "" {
			rc.Bad(key, fd.Pos(), "for the bytes % x decodeRuneInString reads %s: an index out of range, every Marshal entry point panics on a string that ends in the first bytes of a longer sequence", sq, bp.OutOfRange)
			return
		}
		if !ok || !done || len(bp.Results) != 2 {
			rc.Unknown(key, fd.Pos(), "decodeRuneInString could not be folded for the bytes % x (a construct outside straight-line code, if, switch and constant tables)", sq)
			return
		}
		n++
		gotState, gotSize := bp.Results[0], bp.Results[1]
		r, size := utf8.DecodeRuneInString(string(sq))
		wantState, wantSize := stValid, int64(size)
		switch {
		case r == utf8.RuneError && size <= 1:
			wantState, wantSize = stErr, 1
		case r == 0x2028:
			wantState = stLine
		case r == 0x2029:
			wantState = stPara
		}
		if gotState != wantState || gotSize != wantSize {
			if len(bad) < 6 {
				bad = append(bad, fmt.Sprintf("% x: state %d size %d (wanted state %d size %d)", sq, gotState, gotSize, wantState, wantSize))
			} else if len(bad) == 6 {
				bad = append(bad, "…")
			}
		}
	}
	rc.Check(len(bad) == 0, key, fd.Pos(), "decodeRuneInString folded for %d byte sequences agrees with the definition of well-formed UTF-8 (verdict, length, U+2028/U+2029)%s", n, func() string {
		if len(bad) == 0 {
			return ""
		}
		return "; differs for: " + strings.Join(bad, "; ") + " — a sequence taken for a valid rune is copied to the output unexamined: invalid UTF-8, or a quote, backslash or control character inside it, reaches the output raw"
	}())
}
