package rules

import (
	"fmt"
	"go/ast"
	"go/token"
	"go/types"
	"strings"

	"verif/checker/core"
)

// look-ahead reads (C06.R5, C20.R1): an access at <pos>+k, k >= 1 constant.

type laSite struct {
	node ast.Node // the IndexExpr / SliceExpr / char() call
	base string   // rendered base position expression (cursor, s.cursor, r, …)
	k    int64    // highest index that must exist is base+k (for a slice high bound h: k = h-1)
	what string
}

// splitOffset matches  X + k  (k constant >= 0) and returns X rendered and k.
func splitOffset(info *types.Info, e ast.Expr) (string, int64, bool) {
	e = core.Unparen(e)
	if be, ok := e.(*ast.BinaryExpr); ok && be.Op == token.ADD {
		if k, ok := core.ConstInt(info, be.Y); ok {
			if b, k0, ok := splitOffset(info, be.X); ok {
				return b, k0 + k, true
			}
		}
		if k, ok := core.ConstInt(info, be.X); ok {
			if b, k0, ok := splitOffset(info, be.Y); ok {
				return b, k0 + k, true
			}
		}
		return "", 0, false
	}
	if _, isConst := core.ConstInt(info, e); isConst {
		return "", 0, false
	}
	switch x := e.(type) {
	case *ast.Ident:
		// a local with one definition `next := cursor + 1` stands for what it was defined as
		if laBody != nil {
			if def := singleDef(info, laBody, core.ObjOf(info, x)); def != nil {
				if _, isCall := core.Unparen(def).(*ast.CallExpr); !isCall {
					if b, k, ok := splitOffset(info, def); ok && k >= 1 {
						return b, k, true
					}
				}
			}
		}
		return types.ExprString(e), 0, true
	case *ast.SelectorExpr:
		return types.ExprString(e), 0, true
	}
	return "", 0, false
}

// laBody is the body of the function under analysis (the look-ahead rules run one function at a time): it lets
// splitOffset see through locals that name a position plus a constant.
var laBody *ast.BlockStmt

func lookaheadSites(info *types.Info, fd *ast.FuncDecl) []laSite {
	var out []laSite
	laBody = fd.Body
	// assignment targets are writes, not reads
	lhs := map[ast.Expr]bool{}
	ast.Inspect(fd.Body, func(n ast.Node) bool {
		if as, ok := n.(*ast.AssignStmt); ok {
			for _, l := range as.Lhs {
				lhs[core.Unparen(l)] = true
			}
		}
		return true
	})
	ast.Inspect(fd.Body, func(n ast.Node) bool {
		switch x := n.(type) {
		case *ast.IndexExpr:
			if lhs[x] {
				return true
			}
			if tv := info.Types[x.X]; tv.Type != nil {
				if _, isSlice := tv.Type.Underlying().(*types.Slice); !isSlice {
					return true
				}
			}
			if b, k, ok := splitOffset(info, x.Index); ok && k >= 1 {
				out = append(out, laSite{x, b, k, "index " + types.ExprString(x)})
			}
		case *ast.SliceExpr:
			if x.High == nil {
				return true
			}
			if tv := info.Types[x.X]; tv.Type != nil {
				if _, isSlice := tv.Type.Underlying().(*types.Slice); !isSlice {
					return true
				}
			}
			if b, k, ok := splitOffset(info, x.High); ok && k >= 2 {
				out = append(out, laSite{x, b, k - 1, "slice " + types.ExprString(x)})
			}
		case *ast.CallExpr:
			if core.CalleeName(info, x) == "decoder.char" && len(x.Args) == 2 {
				if b, k, ok := splitOffset(info, x.Args[1]); ok && k >= 1 {
					out = append(out, laSite{x, b, k, "read " + types.ExprString(x)})
				}
				return true
			}
			// a scanner of the module handed the text and a position behind the cursor reads the byte there
			// (skipWhiteSpace(src, cursor+1), compactValue(dst, src, cursor+1, …)): the call is a read at cursor+k
			if f := core.Callee(info, x); f != nil && f.Pkg() != nil && info.Defs[fd.Name] != nil && f.Pkg() == info.Defs[fd.Name].Pkg() {
				sig, _ := f.Type().(*types.Signature)
				if sig == nil || sig.Variadic() {
					return true
				}
				hasText := false
				for i := 0; i < sig.Params().Len() && i < len(x.Args); i++ {
					if t := sig.Params().At(i).Type().String(); t == "[]byte" {
						hasText = true
					}
				}
				if !hasText {
					return true
				}
				for i := 0; i < sig.Params().Len() && i < len(x.Args); i++ {
					if bt, ok := sig.Params().At(i).Type().Underlying().(*types.Basic); !ok || bt.Kind() != types.Int64 {
						continue
					}
					if !isCursorObj(sig.Params().At(i)) {
						continue
					}
					if b, k, ok := splitOffset(info, x.Args[i]); ok && k >= 1 {
						out = append(out, laSite{x, b, k, fmt.Sprintf("call %s(…%s…)", f.Name(), types.ExprString(x.Args[i]))})
					}
				}
			}
		}
		return true
	})
	return out
}

// lengthBound matches a comparison that bounds base+j by a length:
//
//	base+j >= L  (exit form: when true the function leaves)   -> returns j, "exit"
//	base+j <  L  (guard form: access inside the true branch)  -> returns j, "guard"
//
// L is len(x), int64(len(x)), a variable defined from such, or the field Stream.length.
func lengthBound(info *types.Info, fd *ast.FuncDecl, e ast.Expr) (base string, j int64, form string, ok bool) {
	laBody = fd.Body
	be, isB := core.Unparen(e).(*ast.BinaryExpr)
	if !isB {
		return
	}
	isLen := func(x ast.Expr) bool {
		x = core.Unparen(x)
		if c, ok := x.(*ast.CallExpr); ok {
			if core.IsBuiltin(info, c, "len") {
				return true
			}
			if tv, ok := info.Types[c.Fun]; ok && tv.IsType() && len(c.Args) == 1 {
				if c2, ok := core.Unparen(c.Args[0]).(*ast.CallExpr); ok && core.IsBuiltin(info, c2, "len") {
					return true
				}
			}
		}
		if f := core.FieldOf(info, x); f != nil && f.Name() == "length" {
			return true
		}
		if id, ok := x.(*ast.Ident); ok {
			obj := info.Uses[id]
			found := false
			ast.Inspect(fd.Body, func(n ast.Node) bool {
				if as, ok := n.(*ast.AssignStmt); ok && len(as.Lhs) == len(as.Rhs) {
					for i, l := range as.Lhs {
						if core.ObjOf(info, l) == obj && obj != nil {
							r := core.Unparen(as.Rhs[i])
							if c, ok := r.(*ast.CallExpr); ok {
								if core.IsBuiltin(info, c, "len") {
									found = true
								}
								if tv, ok := info.Types[c.Fun]; ok && tv.IsType() && len(c.Args) == 1 {
									if c2, ok := core.Unparen(c.Args[0]).(*ast.CallExpr); ok && core.IsBuiltin(info, c2, "len") {
										found = true
									}
								}
							}
						}
					}
				}
				return true
			})
			return found
		}
		return false
	}
	x, y, op := be.X, be.Y, be.Op
	if isLen(x) && !isLen(y) { // L <= base+j  ==  base+j >= L
		x, y = y, x
		switch op {
		case token.LEQ:
			op = token.GEQ
		case token.LSS:
			op = token.GTR
		case token.GTR:
			op = token.LSS
		case token.GEQ:
			op = token.LEQ
		}
	}
	if !isLen(y) {
		return
	}
	b, k, okb := splitOffset(info, x)
	if !okb {
		return
	}
	switch op {
	case token.GEQ:
		return b, k, "exit", true
	case token.GTR:
		return b, k - 1, "exit", true
	case token.LSS:
		return b, k, "guard", true
	case token.LEQ:
		return b, k - 1, "guard", true
	}
	return
}

// guardedLookahead decides one site. sentinel: the buffer ends with a NUL the
// scanner stops at, so an earlier test of byte base+k-1 against a non-zero
// constant proves base+k exists.
func guardedLookahead(rc *core.RC, fd *ast.FuncDecl, cf *core.FuncCFG, s laSite, sentinel bool) (bool, string) {
	info := rc.P.Info(fd)
	path := core.PathTo(fd.Body, s.node)
	// (B)/(C) conditions on the way up: && chains, || chains, enclosing if bodies
	for i := len(path) - 1; i > 0; i-- {
		par, ok := path[i-1].(*ast.BinaryExpr)
		if ok && (par.Op == token.LAND || par.Op == token.LOR) && par.Y == path[i] {
			// everything to the left was evaluated first
			var left []ast.Expr
			if par.Op == token.LAND {
				left = conjuncts(par.X)
			} else {
				left = disjuncts(par.X)
			}
			for _, l := range left {
				if b, j, form, ok := lengthBound(info, fd, l); ok && b == s.base && j >= s.k {
					if (par.Op == token.LAND && form == "guard") || (par.Op == token.LOR && form == "exit") {
						return true, "short-circuit after " + core.Src(rc.P.Fset, l)
					}
				}
				// sentinel idiom: previous byte compared equal to a non-zero constant (&&) or unequal (||)
				if sentinel && s.k >= 1 {
					if be, ok := core.Unparen(l).(*ast.BinaryExpr); ok {
						want := token.EQL
						if par.Op == token.LOR {
							want = token.NEQ
						}
						if be.Op == want {
							if v, isC := core.ConstInt(info, be.Y); isC && v != 0 {
								if pb, pk, ok := accessOffset(info, be.X); ok && pb == s.base && pk == s.k-1 {
									return true, "byte " + s.base + fmt.Sprintf("+%d", pk) + " was just matched against a non-NUL constant (the NUL sentinel stops the chain)"
								}
							}
						}
					}
				}
			}
		}
		if ifs, ok := path[i-1].(*ast.IfStmt); ok && path[i] == ast.Node(ifs.Body) {
			for _, c := range conjuncts(ifs.Cond) {
				if b, j, form, ok := lengthBound(info, fd, c); ok && form == "guard" && b == s.base && j >= s.k {
					return true, "inside `if " + core.Src(rc.P.Fset, c) + "`"
				}
			}
		}
	}
	// (A)/(E) dominating exits
	sb, _ := cf.BlockOf(s.node)
	ok := false
	why := ""
	// `if X[base] == K { … } else { leave }` in front of the read, the cursor not set again in between
	if sentinel && s.k == 1 {
		ast.Inspect(fd.Body, func(n ast.Node) bool {
			ifs, isIf := n.(*ast.IfStmt)
			if !isIf || ok || ifs.Else == nil || ifs.End() > s.node.Pos() {
				return true
			}
			eb, isBlk := ifs.Else.(*ast.BlockStmt)
			if !isBlk || len(eb.List) == 0 {
				return true
			}
			if _, isRet := eb.List[len(eb.List)-1].(*ast.ReturnStmt); !isRet {
				return true
			}
			cnd, flip := stripNot(ifs.Cond)
			be, isB := core.Unparen(cnd).(*ast.BinaryExpr)
			if !isB || !((!flip && be.Op == token.EQL) || (flip && be.Op == token.NEQ)) {
				return true
			}
			if v, isC := core.ConstInt(info, be.Y); !isC || v == 0 {
				return true
			}
			gb, _ := cf.BlockOf(ifs.Cond)
			if gb == nil || sb == nil || !cf.Dominates(gb, sb) {
				return true
			}
			if pb, pk, okp := accessOffset(info, be.X); okp && pb == s.base && pk == 0 && !baseAssignedBetween(info, fd, s.base, ifs.Pos(), s.node.Pos()) {
				ok, why = true, "the byte at "+s.base+" equals a non-NUL constant (the else branch of `"+core.Src(rc.P.Fset, ifs.Cond)+"` leaves), and "+s.base+" is not set again before the read"
			}
			return true
		})
		if ok {
			return true, why
		}
	}
	ast.Inspect(fd.Body, func(n ast.Node) bool {
		ifs, isIf := n.(*ast.IfStmt)
		if !isIf || ok || len(ifs.Body.List) == 0 {
			return true
		}
		gb, _ := cf.BlockOf(ifs.Cond)
		if gb == nil || sb == nil || !cf.Dominates(gb, sb) || (ifs.Body.Pos() <= s.node.Pos() && s.node.End() <= ifs.Body.End()) {
			return true
		}
		tb, _ := core.IfEdges(gb)
		leaves := false
		if tb != nil {
			leaves = true
			for b := range cf.ReachableFrom(tb, nil) {
				if b == sb {
					leaves = false
				}
			}
		}
		if !leaves {
			return true
		}
		for _, d := range disjuncts(ifs.Cond) {
			if b, j, form, okb := lengthBound(info, fd, d); okb && form == "exit" && b == s.base && j >= s.k {
				ok, why = true, "dominated by the exit `"+core.Src(rc.P.Fset, d)+"`"
			}
			// !readAtLeast(s, N, &p)
			if u, isU := core.Unparen(d).(*ast.UnaryExpr); isU && u.Op == token.NOT {
				if c, isC := core.Unparen(u.X).(*ast.CallExpr); isC && core.CalleeName(info, c) == "decoder.readAtLeast" && len(c.Args) >= 2 {
					if nreq, isK := core.ConstInt(info, c.Args[1]); isK && nreq >= s.k && strings.HasSuffix(s.base, "cursor") {
						ok, why = true, fmt.Sprintf("dominated by the exit `!readAtLeast(s, %d, …)`", nreq)
					}
				}
			}
			// sequential sentinel idiom: the previous byte was required to equal a non-NUL constant
			if sentinel {
				dd, flip := stripNot(d)
				be, isB := core.Unparen(dd).(*ast.BinaryExpr)
				if isB && ((!flip && be.Op == token.NEQ) || (flip && be.Op == token.EQL)) {
					if v, isC := core.ConstInt(info, be.Y); isC && v != 0 {
						if pb, pk, okp := accessOffset(info, be.X); okp && pb == s.base && pk == s.k-1 && pk >= 1 {
							ok, why = true, "the previous byte was required to equal a non-NUL constant"
						}
						// the byte under the cursor itself: valid as long as the cursor is not set again in between
						if pb, pk, okp := accessOffset(info, be.X); okp && pb == s.base && pk == 0 && s.k == 1 && ifs.End() <= s.node.Pos() && !baseAssignedBetween(info, fd, s.base, ifs.End(), s.node.Pos()) {
							ok, why = true, "the byte at "+s.base+" was required to equal a non-NUL constant (`"+core.Src(rc.P.Fset, d)+"` leaves), and "+s.base+" is not set again before the read"
						}
					}
				}
			}
		}
		return true
	})
	if ok {
		return true, why
	}
	// a loop `for base+j >= len { refill-or-exit }` that ends before the access: leaving the loop proves base+j < len
	ast.Inspect(fd.Body, func(n ast.Node) bool {
		loop, isFor := n.(*ast.ForStmt)
		if !isFor || ok || loop.Cond == nil || loop.End() > s.node.Pos() {
			return true
		}
		if b, j, form, okb := lengthBound(info, fd, loop.Cond); okb && form == "exit" && b == s.base && j >= s.k {
			lb, _ := cf.BlockOf(loop.Cond)
			if lb != nil && sb != nil && cf.Dominates(lb, sb) {
				// the loop body may only leave through the condition or by exiting the function / an enclosing construct (no assignment to the base after it)
				ok, why = true, "after the loop `for "+core.Src(rc.P.Fset, loop.Cond)+"`"
			}
		}
		return true
	})
	if ok {
		return true, why
	}
	// sentinel idiom: inside a case clause of a dispatch on the byte at `base` whose labels are all non-NUL, base+1 exists
	if sentinel && s.k == 1 {
		for i := len(path) - 1; i > 0; i-- {
			cc, isCC := path[i].(*ast.CaseClause)
			if !isCC || len(cc.List) == 0 || i < 2 {
				continue
			}
			sw, isSw := path[i-2].(*ast.SwitchStmt)
			if !isSw || sw.Tag == nil {
				continue
			}
			tag := sw.Tag
			if id, isID := core.Unparen(tag).(*ast.Ident); isID {
				// c := buf[cursor]; switch c { … }
				if def := singleDef(info, fd.Body, core.ObjOf(info, id)); def != nil {
					tag = def
				}
			}
			if tb, tk, okt := accessOffset(info, tag); okt && tb == s.base && tk == 0 && !baseAssignedBetween(info, fd, s.base, sw.Pos(), s.node.Pos()) {
				nonzero := true
				for _, e := range cc.List {
					if v, isC := core.ConstInt(info, e); !isC || v == 0 {
						nonzero = false
					}
				}
				if nonzero {
					return true, "the byte at " + s.base + " matched a non-NUL case label, so the sentinel is at " + s.base + "+1 or later"
				}
			}
		}
	}
	return false, ""
}

// baseAssignedBetween reports an assignment (or ++/--) to the position expression base between two source positions,
// on the way to the position `to`: an assignment inside a case clause or a branch that does not hold `to` belongs to
// another path and is not counted.
func baseAssignedBetween(info *types.Info, fd *ast.FuncDecl, base string, from, to token.Pos) bool {
	hit := false
	onTheWay := func(n ast.Node) bool {
		for _, anc := range core.PathTo(fd.Body, n) {
			switch b := anc.(type) {
			case *ast.CaseClause:
				if !(b.Pos() <= to && to <= b.End()) {
					return false
				}
			case *ast.BlockStmt:
				if ast.Node(b) != ast.Node(fd.Body) && !(b.Pos() <= to && to <= b.End()) {
					// a branch (if body, else body, loop body) that ends before the read
					return false
				}
			}
		}
		return true
	}
	ast.Inspect(fd.Body, func(n ast.Node) bool {
		switch x := n.(type) {
		case *ast.AssignStmt:
			// (an assignment whose right-hand side holds the read takes effect after it)
			if x.Pos() >= from && x.Pos() < to && x.End() < to {
				for _, l := range x.Lhs {
					if types.ExprString(core.Unparen(l)) == base && onTheWay(x) {
						hit = true
					}
				}
			}
		case *ast.IncDecStmt:
			if x.Pos() >= from && x.Pos() < to && types.ExprString(core.Unparen(x.X)) == base && onTheWay(x) {
				hit = true
			}
		}
		return true
	})
	return hit
}

// accessOffset matches buf[base+k], s.buf[base+k], char(p, base+k).
func accessOffset(info *types.Info, e ast.Expr) (string, int64, bool) {
	e = core.Unparen(e)
	switch x := e.(type) {
	case *ast.IndexExpr:
		return splitOffset(info, x.Index)
	case *ast.CallExpr:
		if core.CalleeName(info, x) == "decoder.char" && len(x.Args) == 2 {
			return splitOffset(info, x.Args[1])
		}
	}
	return "", 0, false
}

func lookaheadRule(rc *core.RC, short string, fileOK func(string) bool, sentinel bool, minSites int) {
	p := rc.P
	n := 0
	for _, fd := range p.Funcs(short) {
		if fd.Body == nil || !fileOK(p.FileBase(fd.Pos())) {
			continue
		}
		info := p.Info(fd)
		sites := lookaheadSites(info, fd)
		if len(sites) == 0 {
			continue
		}
		cf := core.BuildCFG(fd.Body, info)
		rc.Touch(p.FuncName(fd))
		for _, s := range sites {
			n++
			key := fmt.Sprintf("%s/%s", p.FuncName(fd), s.what)
			// an access that only feeds an error message after a failed comparison of the same byte is covered by that comparison
			ok, why := guardedLookahead(rc, fd, cf, s, sentinel)
			if !ok {
				// the same access appears earlier in a dominating position and is itself guarded (e.g. the byte echoed in an error message)
				for _, s2 := range sites {
					if s2.node.Pos() < s.node.Pos() && s2.base == s.base && s2.k >= s.k && cf.NodeBefore(s2.node, s.node) {
						if ok2, w2 := guardedLookahead(rc, fd, cf, s2, sentinel); ok2 {
							ok, why = true, "same position already read at "+p.Pos(s2.node.Pos())+" ("+w2+")"
							break
						}
					}
				}
			}
			if ok {
				rc.OK(key, s.node.Pos(), "%s", why)
			} else {
				rc.Bad(key, s.node.Pos(), "the read at %s+%d is not protected by a length test on %s (no dominating `%s+j >= len(…)` exit with j >= %d, no enclosing `%s+j < len(…)`, no matched preceding byte): at the end of the input it reads past the terminator", s.base, s.k, s.base, s.base, s.k, s.base)
			}
		}
	}
	if n < minSites {
		rc.Unknown(short+"/lookahead-sites", token.NoPos, "found %d look-ahead reads, fewer than the %d confirmed by hand", n, minSites)
	}
}

func c06r5(rc *core.RC) {
	lookaheadRule(rc, "decoder", func(f string) bool { return f != "path.go" }, true, 20)
	lookaheadRule(rc, "encoder", func(f string) bool { return scannerFiles[f] }, true, 5)
}
