package rules

import (
	"fmt"
	"go/ast"
	"go/token"
	"go/types"
	"sort"
	"strings"

	"golang.org/x/tools/go/cfg"
	"golang.org/x/tools/go/ssa"

	"verif/checker/core"
)

// mayRefill returns the set of module functions that transitively (static
// calls) reach (*Stream).read, which appends to — and may reallocate or shift —
// the stream window.
func mayRefill(rc *core.RC) map[*types.Func]bool {
	p := rc.P
	g := p.StaticGraph()
	read := p.SSAFunc("decoder", "Stream.read")
	out := map[*types.Func]bool{}
	if read == nil {
		rc.Unknown("decoder.(*Stream).read", token.NoPos, "refill primitive not found")
		return out
	}
	reach := map[*ssa.Function]bool{read: true}
	for changed := true; changed; {
		changed = false
		for _, f := range g.Funcs {
			if reach[f] {
				continue
			}
			for _, s := range g.Succ[f] {
				if reach[s] {
					reach[f] = true
					changed = true
					break
				}
			}
		}
	}
	for f := range reach {
		if fo, ok := f.Object().(*types.Func); ok {
			out[fo] = true
		}
	}
	return out
}

// nodeRefills: the CFG node contains a call that may refill. Calls through the
// Decoder interface (DecodeStream) and through function-valued fields that
// take a *Stream also may refill.
func nodeRefills(info *types.Info, n ast.Node, refill map[*types.Func]bool) bool {
	hit := false
	ast.Inspect(n, func(m ast.Node) bool {
		if _, isLit := m.(*ast.FuncLit); isLit {
			return false
		}
		call, ok := m.(*ast.CallExpr)
		if !ok {
			return true
		}
		if f := core.Callee(info, call); f != nil {
			if refill[f.Origin()] {
				hit = true
			}
			if sig := f.Type().(*types.Signature); sig.Recv() != nil {
				if _, isIface := sig.Recv().Type().Underlying().(*types.Interface); isIface && f.Name() == "DecodeStream" {
					hit = true
				}
			}
			return true
		}
		// call of a function value: may refill if it is handed a *Stream
		for _, a := range call.Args {
			if tv := info.Types[a]; tv.Type != nil && strings.HasSuffix(tv.Type.String(), "decoder.Stream") {
				hit = true
			}
		}
		return true
	})
	return hit
}

// ---- C09.R1 window snapshot typestate ----

type snapVar struct {
	obj  types.Object
	kind string // ptr | buf | byte
}

// snapshotSource classifies an expression that reads the stream window.
func snapshotSource(info *types.Info, e ast.Expr, tracked map[types.Object]string) string {
	e = core.Unparen(e)
	switch x := e.(type) {
	case *ast.CallExpr:
		switch core.CalleeName(info, x) {
		case "decoder.Stream.bufptr":
			return "ptr"
		case "decoder.Stream.char":
			return "byte"
		case "decoder.char":
			if len(x.Args) == 2 {
				if k := tracked[core.ObjOf(info, x.Args[0])]; k == "ptr" {
					return "byte"
				}
			}
		}
	case *ast.IndexExpr:
		if f := core.FieldOf(info, x.X); f != nil && f.Name() == "buf" {
			return "byte"
		}
		if k := tracked[core.ObjOf(info, x.X)]; k == "buf" {
			return "byte"
		}
	case *ast.SelectorExpr:
		if f := core.FieldOf(info, x); f != nil && f.Name() == "buf" {
			if _, isSlice := f.Type().Underlying().(*types.Slice); isSlice {
				return "buf"
			}
		}
	}
	return ""
}

func c09r1(rc *core.RC) {
	p := rc.P
	refill := mayRefill(rc)
	if len(refill) < 10 {
		rc.Unknown("decoder/may-refill", token.NoPos, "only %d functions reach (*Stream).read", len(refill))
		return
	}
	nf := 0
	for _, fd := range p.Funcs("decoder") {
		if fd.Body == nil {
			continue
		}
		info := p.Info(fd)
		// stream-mode function: has a *Stream parameter or receiver
		stream := false
		fields := append([]*ast.Field{}, fd.Type.Params.List...)
		if fd.Recv != nil {
			fields = append(fields, fd.Recv.List...)
		}
		for _, f := range fields {
			if tv := info.Types[f.Type]; tv.Type != nil && strings.HasSuffix(tv.Type.String(), "decoder.Stream") {
				stream = true
			}
		}
		if !stream {
			continue
		}
		// tracked snapshot variables
		tracked := map[types.Object]string{}
		for pass := 0; pass < 2; pass++ {
			ast.Inspect(fd.Body, func(n ast.Node) bool {
				as, ok := n.(*ast.AssignStmt)
				if !ok {
					return true
				}
				// _, cursor, p = s.stat()
				if len(as.Rhs) == 1 && len(as.Lhs) == 3 {
					if c, ok := core.Unparen(as.Rhs[0]).(*ast.CallExpr); ok {
						if cn := core.CalleeName(info, c); cn == "decoder.Stream.stat" || cn == "decoder.Stream.statForRetry" {
							if o := core.ObjOf(info, as.Lhs[0]); o != nil {
								tracked[o] = "buf"
							}
							if o := core.ObjOf(info, as.Lhs[2]); o != nil {
								tracked[o] = "ptr"
							}
						}
					}
				}
				if len(as.Lhs) == len(as.Rhs) {
					for i, r := range as.Rhs {
						if k := snapshotSource(info, r, tracked); k != "" {
							if o := core.ObjOf(info, as.Lhs[i]); o != nil {
								if _, isVar := o.(*types.Var); isVar && !o.(*types.Var).IsField() {
									tracked[o] = k
								}
							}
						}
					}
				}
				return true
			})
		}
		// an unsafe.Pointer parameter is a window pointer only if this function reads the window through it (char(p, …))
		for _, f := range fd.Type.Params.List {
			for _, nm := range f.Names {
				o := info.Defs[nm]
				if o == nil || o.Type().String() != "unsafe.Pointer" {
					continue
				}
				ast.Inspect(fd.Body, func(m ast.Node) bool {
					if c, ok := m.(*ast.CallExpr); ok && core.CalleeName(info, c) == "decoder.char" && len(c.Args) == 2 && core.ObjOf(info, c.Args[0]) == o {
						tracked[o] = "ptr"
					}
					return true
				})
			}
		}
		if len(tracked) == 0 {
			continue
		}
		nf++
		fn := p.FuncName(fd)
		rc.Touch(fn)
		cf := core.BuildCFG(fd.Body, info)
		// forward may-analysis: set of stale variables at block entry
		in := map[*cfg.Block]map[types.Object]bool{}
		type finding struct {
			obj types.Object
			pos token.Pos
			src string
		}
		var finds []finding
		seenFind := map[string]bool{}
		// readCond: the node is `s.read()` or `!s.read()` used as a branch condition; returns which edge is the success edge
		readCond := func(n ast.Node) (isRead bool, successIsTrue bool) {
			e, ok := n.(ast.Expr)
			if !ok {
				return false, false
			}
			e = core.Unparen(e)
			neg := false
			if u, ok := e.(*ast.UnaryExpr); ok && u.Op == token.NOT {
				neg = true
				e = core.Unparen(u.X)
			}
			c, ok := e.(*ast.CallExpr)
			if !ok || core.CalleeName(info, c) != "decoder.Stream.read" {
				return false, false
			}
			return true, !neg
		}
		// transfer returns the stale set on the true edge and on the false edge (equal unless the block ends in a read condition)
		transfer := func(b *cfg.Block, st map[types.Object]bool, report bool) (map[types.Object]bool, map[types.Object]bool) {
			cur := map[types.Object]bool{}
			for k := range st {
				cur[k] = true
			}
			var alt map[types.Object]bool
			for ni, n := range b.Nodes {
				assigned := map[types.Object]bool{}
				lhsIdent := map[*ast.Ident]bool{}
				if s, ok := n.(*ast.AssignStmt); ok {
					for _, l := range s.Lhs {
						if id, ok := core.Unparen(l).(*ast.Ident); ok {
							lhsIdent[id] = true
							if o := core.ObjOf(info, id); o != nil && (s.Tok == token.ASSIGN || s.Tok == token.DEFINE) {
								assigned[o] = true
							}
						}
					}
				}
				// &p handed to a callee: the callee re-takes it (readAtLeast(s, n, &p))
				ast.Inspect(n, func(m ast.Node) bool {
					if u, ok := m.(*ast.UnaryExpr); ok && u.Op == token.AND {
						if id, ok := core.Unparen(u.X).(*ast.Ident); ok {
							lhsIdent[id] = true
							if o := core.ObjOf(info, id); o != nil {
								assigned[o] = true
							}
						}
					}
					return true
				})
				if report {
					ast.Inspect(n, func(m ast.Node) bool {
						if _, isLit := m.(*ast.FuncLit); isLit {
							return false
						}
						id, ok := m.(*ast.Ident)
						if !ok || lhsIdent[id] {
							return true
						}
						o := info.Uses[id]
						if o != nil && cur[o] {
							k := fmt.Sprintf("%s@%d", o.Name(), id.Pos())
							if !seenFind[k] {
								seenFind[k] = true
								finds = append(finds, finding{o, id.Pos(), core.Src(p.Fset, n)})
							}
						}
						return true
					})
				}
				last := ni == len(b.Nodes)-1 && len(b.Succs) == 2
				if isRead, succTrue := readCond(n); isRead && last {
					// only the success edge saw new data
					stale := map[types.Object]bool{}
					for k := range cur {
						stale[k] = true
					}
					for o := range tracked {
						stale[o] = true
					}
					if succTrue {
						return stale, cur
					}
					return cur, stale
				}
				if nodeRefills(info, n, refill) {
					for o := range tracked {
						cur[o] = true
					}
				}
				for o := range assigned {
					delete(cur, o)
				}
			}
			_ = alt
			return cur, cur
		}
		// fixpoint
		work := []*cfg.Block{}
		for _, b := range cf.G.Blocks {
			if cf.Reachable(b) {
				work = append(work, b)
				in[b] = map[types.Object]bool{}
			}
		}
		for len(work) > 0 {
			b := work[0]
			work = work[1:]
			outT, outF := transfer(b, in[b], false)
			for si, s := range b.Succs {
				out := outT
				if si == 1 {
					out = outF
				}
				if in[s] == nil {
					in[s] = map[types.Object]bool{}
				}
				grew := false
				for o := range out {
					if !in[s][o] {
						in[s][o] = true
						grew = true
					}
				}
				if grew {
					work = append(work, s)
				}
			}
		}
		for _, b := range cf.G.Blocks {
			if cf.Reachable(b) {
				transfer(b, in[b], true)
			}
		}
		if len(finds) == 0 {
			rc.OK(fn+"/window-snapshot", fd.Pos(), "no use of a window pointer, buffer or loaded byte after a possible refill without re-taking it (%d tracked variables)", len(tracked))
			continue
		}
		sort.Slice(finds, func(i, j int) bool { return finds[i].pos < finds[j].pos })
		perVar := map[types.Object]bool{}
		for _, f := range finds {
			if perVar[f.obj] {
				continue
			}
			perVar[f.obj] = true
			rc.Bad(fmt.Sprintf("%s/stale %s", fn, f.obj.Name()), f.pos, "%s (a %s taken from the stream window) is used in `%s` on a path where a call that may refill the window ((*Stream).read appends and can reallocate the buffer) happened after it was taken and before it was re-taken", f.obj.Name(), map[string]string{"ptr": "pointer", "buf": "slice", "byte": "byte"}[tracked[f.obj]], core.Clip(f.src, 90))
		}
	}
	if nf < 12 {
		rc.Unknown("decoder/stream-scanners", token.NoPos, "only %d stream-mode functions with window snapshots found (confirmed: ≥ 20)", nf)
	}
}

// ---- C09.R2 retry re-checks ----

func c09r2(rc *core.RC) {
	p := rc.P
	refill := mayRefill(rc)
	for _, name := range []string{"nullBytes", "trueBytes", "falseBytes"} {
		fd := p.Func("decoder", name)
		if fd == nil {
			rc.Unknown("decoder."+name, token.NoPos, "literal reader not found")
			continue
		}
		rc.Touch("decoder." + name)
		info := p.Info(fd)
		cf := core.BuildCFG(fd.Body, info)
		idx := 0
		ast.Inspect(fd.Body, func(n ast.Node) bool {
			// comparisons  s.char() != K  as condition of an if / for
			var cond ast.Expr
			var body *ast.BlockStmt
			isLoop := false
			switch s := n.(type) {
			case *ast.IfStmt:
				cond, body = s.Cond, s.Body
			case *ast.ForStmt:
				cond, body, isLoop = s.Cond, s.Body, true
			default:
				return true
			}
			be, ok := core.Unparen(cond).(*ast.BinaryExpr)
			if !ok || be.Op != token.NEQ {
				return true
			}
			call, ok := core.Unparen(be.X).(*ast.CallExpr)
			if !ok || core.CalleeName(info, call) != "decoder.Stream.char" {
				return true
			}
			k, ok := core.ConstInt(info, be.Y)
			if !ok {
				return true
			}
			// does the body refill?
			refills := false
			for _, st := range body.List {
				if nodeRefills(info, st, refill) {
					refills = true
				}
			}
			if !refills {
				return true
			}
			idx++
			rc.CallSites++
			key := fmt.Sprintf("decoder.%s/byte %d %q/recheck-after-refill", name, idx, rune(k))
			if isLoop {
				rc.OK(key, cond.Pos(), "the comparison is a loop condition: it is evaluated again after the refill")
				return true
			}
			// if-form: after the refill the byte must be compared again before the cursor advances
			cb, _ := cf.BlockOf(cond)
			_, after := core.IfEdges(cb) // false edge = continue after the if; the then-branch joins it
			rechecked := false
			if after != nil {
				// from the join point, is there a comparison with the same constant before cursor++ ?
				stop := map[*cfg.Block]bool{}
				for blk := range cf.ReachableFrom(after, stop) {
					_ = blk
				}
				// linear scan of the statements following the if in the same list
				path := core.PathTo(fd.Body, n)
				if len(path) >= 2 {
					if parent, ok := path[len(path)-2].(*ast.BlockStmt); ok {
						seenSelf := false
						for _, st := range parent.List {
							if st == n {
								seenSelf = true
								continue
							}
							if !seenSelf {
								continue
							}
							if nodeAdvances(st) {
								break
							}
							ast.Inspect(st, func(m ast.Node) bool {
								if b2, ok := m.(*ast.BinaryExpr); ok && (b2.Op == token.NEQ || b2.Op == token.EQL) {
									if v, ok := core.ConstInt(info, b2.Y); ok && v == k {
										rechecked = true
									}
								}
								return true
							})
						}
					}
				}
			}
			if rechecked {
				rc.OK(key, cond.Pos(), "compared again after the refill")
			} else {
				rc.Bad(key, cond.Pos(), "when the expected byte %q is missing because the window ended, the refill succeeds and the cursor then advances without comparing the newly read byte: any byte is accepted at a chunk boundary inside the literal", rune(k))
			}
			return true
		})
		if idx < 3 {
			rc.Note("decoder."+name+"/retry-sites", fd.Pos(), "found %d byte comparisons with a refill of their own in this function: the literal reader is written in another form, which C09.R12 (flow-graph rule over every refill) decides", idx)
		}
	}
}

// ---- C09.R3 reader errors are not dropped ----

func c09r3(rc *core.RC) {
	fn := rc.P.SSAFunc("decoder", "Stream.read")
	if fn == nil {
		rc.Unknown("decoder.(*Stream).read", token.NoPos, "not found")
		return
	}
	rc.Touch("decoder.(*Stream).read")
	found := false
	for _, b := range fn.Blocks {
		for _, ins := range b.Instrs {
			c, ok := ins.(*ssa.Call)
			if !ok || !c.Call.IsInvoke() || c.Call.Method.Name() != "Read" {
				continue
			}
			found = true
			rc.CallSites++
			// the error component
			kept := false
			for _, r := range *c.Referrers() {
				ex, ok := r.(*ssa.Extract)
				if !ok || ex.Index != 1 {
					continue
				}
				seen := map[ssa.Value]bool{}
				var walk func(v ssa.Value)
				walk = func(v ssa.Value) {
					if seen[v] {
						return
					}
					seen[v] = true
					for _, u := range *v.Referrers() {
						switch x := u.(type) {
						case *ssa.Store:
							if x.Val == v {
								if _, isField := x.Addr.(*ssa.FieldAddr); isField {
									kept = true
								}
							}
						case *ssa.Return:
							kept = true
						case *ssa.Phi:
							walk(x)
						case *ssa.ChangeInterface:
							walk(x)
						case *ssa.MakeInterface:
							walk(x)
						}
					}
				}
				walk(ex)
			}
			key := "decoder.(*Stream).read/reader-error"
			if kept {
				rc.OK(key, core.SSAPos(c), "the error returned by the io.Reader reaches a Stream field or the return value")
			} else {
				rc.Bad(key, core.SSAPos(c), "the error returned by r.Read is only compared with io.EOF and then discarded: a reader failure in the middle of a document is reported to the decoder as end of input, and a value that was complete is returned with a nil error")
			}
		}
	}
	if !found {
		rc.Unknown("decoder.(*Stream).read/reader-error", fn.Pos(), "no call of io.Reader.Read found")
	}
	// the kept error is what Decoder.Decode returns: every success return of DecodeWithOption is
	// dominated by a test of the stream's reader error whose true branch returns it
	fd := rc.P.Func("json", "Decoder.DecodeWithOption")
	key := "json.(*Decoder).DecodeWithOption/returns-reader-error"
	if fd == nil {
		rc.Unknown(key, token.NoPos, "not found")
		return
	}
	rc.Touch("json.(*Decoder).DecodeWithOption")
	info := rc.P.Info(fd)
	cf := core.BuildCFG(fd.Body, info)
	var guards []*cfg.Block
	ast.Inspect(fd.Body, func(m ast.Node) bool {
		ifs, ok := m.(*ast.IfStmt)
		if !ok {
			return true
		}
		// if rerr := s.ReadErr(); rerr != nil { return rerr }
		calls := false
		if ifs.Init != nil {
			ast.Inspect(ifs.Init, func(k ast.Node) bool {
				if c, ok := k.(*ast.CallExpr); ok && strings.HasSuffix(core.CalleeName(info, c), "Stream.ReadErr") {
					calls = true
				}
				return true
			})
		}
		if !calls {
			return true
		}
		retsIt := false
		for _, st := range ifs.Body.List {
			if r, ok := st.(*ast.ReturnStmt); ok && len(r.Results) == 1 && !core.IsNilIdent(info, r.Results[0]) {
				retsIt = true
			}
		}
		if retsIt {
			if b, _ := cf.BlockOf(ifs.Cond); b != nil {
				guards = append(guards, b)
			}
		}
		return true
	})
	okAll, nret := true, 0
	for _, r := range cf.Returns() {
		if len(r.Results) != 1 || !core.IsNilIdent(info, r.Results[0]) {
			continue
		}
		nret++
		rb, _ := cf.BlockOf(r)
		dom := false
		for _, g := range guards {
			if rb != nil && cf.Dominates(g, rb) {
				dom = true
			}
		}
		if !dom {
			okAll = false
		}
	}
	rc.Check(okAll && nret > 0 && len(guards) > 0, key, fd.Pos(), "every `return nil` of Decoder.DecodeWithOption is dominated by `if rerr := s.ReadErr(); rerr != nil { return rerr }` (%d guard(s), %d success return(s)): a value cut short by a failing reader is not reported as decoded", len(guards), nret)
}

// ---- C09.R4 mode siblings agree on dispatch ----

var modePairs = [][2]string{
	{"intDecoder.decodeByte", "intDecoder.decodeStreamByte"},
	{"uintDecoder.decodeByte", "uintDecoder.decodeStreamByte"},
	{"floatDecoder.decodeByte", "floatDecoder.decodeStreamByte"},
	{"numberDecoder.decodeByte", "numberDecoder.decodeStreamByte"},
	{"stringDecoder.decodeByte", "stringDecoder.decodeStreamByte"},
	{"boolDecoder.Decode", "boolDecoder.DecodeStream"},
	{"arrayDecoder.Decode", "arrayDecoder.DecodeStream"},
	{"sliceDecoder.Decode", "sliceDecoder.DecodeStream"},
	{"mapDecoder.Decode", "mapDecoder.DecodeStream"},
	{"interfaceDecoder.decodeEmptyInterface", "interfaceDecoder.decodeStreamEmptyInterface"},
	{"skipValue", "Stream.skipValue"},
	{"skipObject", "Stream.skipObject"},
	{"skipArray", "Stream.skipArray"},
}

func c09r4(rc *core.RC) {
	sites := dispatchSites(rc)
	first := func(name string) *dispatchSite {
		fd := rc.P.Func("decoder", name)
		for _, d := range sites {
			if d.fd == fd && d.role == "value" && d.idx == 1 {
				return d
			}
		}
		return nil
	}
	for _, pr := range modePairs {
		a, b := first(pr[0]), first(pr[1])
		key := fmt.Sprintf("decoder.%s/same-dispatch-as-%s", pr[1], pr[0])
		if a == nil || b == nil {
			rc.Unknown(key, token.NoPos, "value-start dispatch not found in one mode")
			continue
		}
		rc.Touch(a.fn)
		rc.Touch(b.fn)
		var diff []int
		for bt := 1; bt < 256; bt++ {
			if a.isError(bt) != b.isError(bt) {
				diff = append(diff, bt)
			}
		}
		if len(diff) == 0 {
			rc.OK(key, b.bs.Stmt.Pos(), "both modes send the same 255 non-NUL byte values to an error")
		} else {
			rc.Bad(key, b.bs.Stmt.Pos(), "buffer and stream mode disagree at value start on bytes %s (buffer error=%v, stream error=%v for %q): the same document is accepted by one mode and rejected by the other", core.FmtBytes(sample(diff, 8)), a.isError(diff[0]), b.isError(diff[0]), rune(diff[0]))
		}
		// post-scan length tests on the '-' clause and similar: labels with their own clause must match
		la, lb := map[int]bool{}, map[int]bool{}
		for _, l := range a.bs.Labels {
			for _, x := range l {
				la[x] = true
			}
		}
		for _, l := range b.bs.Labels {
			for _, x := range l {
				lb[x] = true
			}
		}
		var ldiff []int
		for x := 1; x < 256; x++ {
			if la[x] != lb[x] {
				ldiff = append(ldiff, x)
			}
		}
		rc.Check(len(ldiff) == 0, key+"/labels", b.bs.Stmt.Pos(), "the two modes name the same bytes in their case labels (differences: %s)", core.FmtBytes(ldiff))
	}
}

// ---- C09.R5 the "need more data?" predicate looks only at received bytes ----

func c09r5(rc *core.RC) {
	p := rc.P
	n := 0
	for _, fd := range p.Funcs("decoder") {
		if fd.Body == nil {
			continue
		}
		info := p.Info(fd)
		ast.Inspect(fd.Body, func(m ast.Node) bool {
			call, ok := m.(*ast.CallExpr)
			if !ok || core.CalleeName(info, call) != "unicode/utf8.FullRune" && core.CalleeName(info, call) != "utf8.FullRune" {
				return true
			}
			se, ok := core.Unparen(call.Args[0]).(*ast.SliceExpr)
			if !ok {
				return true
			}
			f := core.FieldOf(info, se.X)
			if f == nil || f.Name() != "buf" {
				return true
			}
			n++
			rc.CallSites++
			rc.Touch(p.FuncName(fd))
			key := p.FuncName(fd) + "/FullRune-operand"
			good := false
			if se.High != nil {
				if hf := core.FieldOf(info, se.High); hf != nil && hf.Name() == "length" {
					good = true
				}
			}
			if good {
				rc.OK(key, call.Pos(), "the incomplete-sequence test is limited to the bytes received so far (s.length)")
			} else {
				rc.Bad(key, call.Pos(), "utf8.FullRune decides whether the window must be refilled, but its operand %s extends beyond the received data (the bytes behind s.length are zero): a multi-byte character cut by a chunk boundary looks complete and is replaced by U+FFFD", core.Src(p.Fset, call.Args[0]))
			}
			return true
		})
	}
	if n < 1 {
		rc.Unknown("decoder/FullRune-sites", token.NoPos, "no utf8.FullRune test on the stream window found")
	}
}

// ---- C09.R6 window splices keep s.length consistent ----

// concatPieces flattens append(append(P, Q...), R...) into [P, Q, R]; append([]byte{}, X...) contributes X only.
func concatPieces(info *types.Info, e ast.Expr) ([]ast.Expr, bool) {
	e = core.Unparen(e)
	call, ok := e.(*ast.CallExpr)
	if !ok || !core.IsBuiltin(info, call, "append") {
		return []ast.Expr{e}, true
	}
	if len(call.Args) != 2 || !call.Ellipsis.IsValid() {
		return nil, false
	}
	head, ok := concatPieces(info, call.Args[0])
	if !ok {
		return nil, false
	}
	// an empty literal head contributes nothing
	if len(head) == 1 {
		if cl, isLit := core.Unparen(head[0]).(*ast.CompositeLit); isLit && len(cl.Elts) == 0 {
			head = nil
		}
	}
	return append(head, call.Args[1]), true
}

func c09r6(rc *core.RC) { windowSplices(rc, "length") }

// C09.R13: the input offset of the byte under the cursor is s.offset + s.cursor; a splice in front of the cursor moves
// every later byte of the window by the net size of the splice, so s.offset has to move by the opposite amount.
func c09r13(rc *core.RC) { windowSplices(rc, "offset") }

func windowSplices(rc *core.RC, field string) {
	p := rc.P
	pk := p.Pkg("decoder")
	n := 0
	for _, fd := range p.Funcs("decoder") {
		if fd.Body == nil {
			continue
		}
		info := p.Info(fd)
		le := &core.LinearEval{Info: info, Pkg: pk, Body: fd.Body}
		isStreamField := func(e ast.Expr, name string) bool {
			f := core.FieldOf(info, e)
			if f == nil || f.Name() != name {
				return false
			}
			sel := core.Unparen(e).(*ast.SelectorExpr)
			s := info.Selections[sel]
			return s != nil && strings.HasSuffix(strings.TrimPrefix(s.Recv().String(), "*"), "decoder.Stream")
		}
		// every statement list
		var lists [][]ast.Stmt
		ast.Inspect(fd.Body, func(m ast.Node) bool {
			switch x := m.(type) {
			case *ast.BlockStmt:
				lists = append(lists, x.List)
			case *ast.CaseClause:
				lists = append(lists, x.Body)
			}
			return true
		})
		for _, list := range lists {
			for _, st := range list {
				as, ok := st.(*ast.AssignStmt)
				if !ok || len(as.Lhs) != 1 || len(as.Rhs) != 1 || !isStreamField(as.Lhs[0], "buf") {
					continue
				}
				pieces, ok := concatPieces(info, as.Rhs[0])
				if !ok || len(pieces) < 2 {
					continue
				}
				// is it a splice of s.buf itself?
				uses := false
				delta := core.LinConst(0)
				understood := true
				for _, pc := range pieces {
					if se, ok := core.Unparen(pc).(*ast.SliceExpr); ok && isStreamField(se.X, "buf") {
						uses = true
						switch {
						case se.Low == nil && se.High != nil: // [:A] contributes A bytes
							delta = delta.Add(le.Eval(se.High))
						case se.Low != nil && se.High == nil: // [B:] drops the first B bytes of the old window
							delta = delta.Sub(le.Eval(se.Low))
						case se.Low != nil && se.High != nil:
							delta = delta.Add(le.Eval(se.High)).Sub(le.Eval(se.Low))
							understood = false // a middle piece does not include the old tail: not the splice idiom
						default:
							understood = false
						}
						continue
					}
					// inserted bytes
					delta = delta.Add(le.Eval(&ast.CallExpr{Fun: ast.NewIdent("len"), Args: []ast.Expr{pc}}))
					if !delta.OK {
						// len(x) of an arbitrary expression: name it by its source
						understood = false
					}
				}
				if !uses {
					continue
				}
				n++
				rc.Touch(p.FuncName(fd))
				key := fmt.Sprintf("%s/splice %s", p.FuncName(fd), core.Clip(core.Shape(p.Fset, info, fd, as.Rhs[0]), 50))
				if !understood || !delta.OK {
					// try again evaluating inserted lengths by hand (len(ident))
					delta = core.LinConst(0)
					understood = true
					for _, pc := range pieces {
						if se, ok := core.Unparen(pc).(*ast.SliceExpr); ok && isStreamField(se.X, "buf") {
							if se.Low == nil && se.High != nil {
								delta = delta.Add(le.Eval(se.High))
							} else if se.Low != nil && se.High == nil {
								delta = delta.Sub(le.Eval(se.Low))
							} else {
								understood = false
							}
							continue
						}
						lenCall := &ast.CallExpr{Fun: &ast.Ident{Name: "len"}, Args: []ast.Expr{pc}}
						_ = lenCall
						if id, ok := core.Unparen(pc).(*ast.Ident); ok {
							delta = delta.Add(core.Linear{Terms: map[string]int64{"len(" + id.Name + ")": 1}, OK: true})
						} else {
							understood = false
						}
					}
				}
				if !understood || !delta.OK {
					rc.Unknown(key, as.Pos(), "splice of the stream window not understood")
					continue
				}
				// length updates in the same statement list
				upd := core.LinConst(0)
				found := false
				for _, s2 := range list {
					switch x := s2.(type) {
					case *ast.IncDecStmt:
						if isStreamField(x.X, field) {
							found = true
							if x.Tok == token.INC {
								upd = upd.Add(core.LinConst(1))
							} else {
								upd = upd.Sub(core.LinConst(1))
							}
						}
					case *ast.AssignStmt:
						if len(x.Lhs) == 1 && isStreamField(x.Lhs[0], field) {
							found = true
							switch x.Tok {
							case token.ADD_ASSIGN:
								upd = upd.Add(le.Eval(x.Rhs[0]))
							case token.SUB_ASSIGN:
								upd = upd.Sub(le.Eval(x.Rhs[0]))
							case token.ASSIGN:
								// s.length = s.length ± E
								v := le.Eval(x.Rhs[0])
								self := core.Linear{Terms: map[string]int64{types.ExprString(core.Unparen(x.Lhs[0])): 1}, OK: true}
								upd = upd.Add(v.Sub(self))
							}
						}
					}
				}
				if field == "offset" {
					want := core.LinConst(0).Sub(delta)
					switch {
					case !found:
						rc.Bad(key, as.Pos(), "the window is spliced in front of the cursor (net change %s bytes) but s.offset is not adjusted next to it: InputOffset (s.offset + s.cursor) no longer is the number of input bytes consumed, and Valid, which examines data[InputOffset():], looks at the wrong bytes", delta)
					case upd.Equal(want):
						rc.OK(key, as.Pos(), "s.offset changes by %s, the opposite of the splice's net size %s: s.offset + s.cursor stays the input offset", upd, delta)
					default:
						rc.Bad(key, as.Pos(), "the splice moves the rest of the window by %s bytes but s.offset is changed by %s (expected %s): InputOffset is off by %s afterwards", delta, upd, want, upd.Sub(want))
					}
					continue
				}
				if !found {
					rc.Bad(key, as.Pos(), "the window is spliced (net change %s bytes) but s.length is not updated next to it", delta)
					continue
				}
				if upd.Equal(delta) {
					rc.OK(key, as.Pos(), "s.length changes by %s, the net size of the splice", delta)
				} else {
					rc.Bad(key, as.Pos(), "the splice changes the amount of data in the window by %s but s.length is changed by %s: until the next refill the scanners believe the window holds %s more bytes than it does, so a token cut by a chunk boundary looks complete", delta, upd, upd.Sub(delta))
				}
			}
		}
	}
	if n < 3 {
		rc.Unknown("decoder/window-splices", token.NoPos, "found %d in-place splices of the stream window (confirmed: decodeUnicode, decodeEscapeString, 2 in stringBytes)", n)
	}
}

// ---- C09.R7 the local cursor is written back before a refill ----

func c09r7(rc *core.RC) {
	p := rc.P
	n := 0
	for _, fd := range p.Funcs("decoder") {
		if fd.Body == nil {
			continue
		}
		info := p.Info(fd)
		// local cursor taken from s.stat()
		var cur types.Object
		ast.Inspect(fd.Body, func(m ast.Node) bool {
			if as, ok := m.(*ast.AssignStmt); ok && len(as.Lhs) == 3 && len(as.Rhs) == 1 {
				if c, ok := core.Unparen(as.Rhs[0]).(*ast.CallExpr); ok {
					if cn := core.CalleeName(info, c); cn == "decoder.Stream.stat" || cn == "decoder.Stream.statForRetry" {
						if o := core.ObjOf(info, as.Lhs[1]); o != nil {
							cur = o
						}
					}
				}
			}
			return true
		})
		if cur == nil {
			continue
		}
		cf := core.BuildCFG(fd.Body, info)
		isRetake := func(n ast.Node) bool {
			as, ok := n.(*ast.AssignStmt)
			if !ok || len(as.Rhs) != 1 {
				return false
			}
			c, ok := core.Unparen(as.Rhs[0]).(*ast.CallExpr)
			if !ok {
				return false
			}
			cn := core.CalleeName(info, c)
			return cn == "decoder.Stream.stat" || cn == "decoder.Stream.statForRetry"
		}
		// must-analysis of "in sync": true right after s.cursor = f(cursor) or a re-take; false after the local moves
		in := map[*cfg.Block]bool{}
		for _, b := range cf.G.Blocks {
			in[b] = true
		}
		step := func(nd ast.Node, st bool) bool {
			switch x := nd.(type) {
			case *ast.IncDecStmt:
				if core.ObjOf(info, x.X) == cur {
					return false
				}
			case *ast.AssignStmt:
				if isRetake(x) {
					return true
				}
				for i, l := range x.Lhs {
					if core.ObjOf(info, l) == cur {
						// cursor = s.cursor keeps them equal
						if i < len(x.Rhs) {
							if f := core.FieldOf(info, x.Rhs[i]); f != nil && f.Name() == "cursor" {
								return true
							}
						}
						return false
					}
					if f := core.FieldOf(info, l); f != nil && f.Name() == "cursor" && i < len(x.Rhs) {
						uses := false
						ast.Inspect(x.Rhs[i], func(k ast.Node) bool {
							if id, ok := k.(*ast.Ident); ok && info.Uses[id] == cur {
								uses = true
							}
							return true
						})
						if uses {
							return true
						}
					}
				}
			}
			return st
		}
		for changed := true; changed; {
			changed = false
			for _, b := range cf.G.Blocks {
				if !cf.Reachable(b) {
					continue
				}
				st := in[b]
				for _, nd := range b.Nodes {
					st = step(nd, st)
				}
				for _, s := range b.Succs {
					if in[s] && !st {
						in[s] = false
						changed = true
					}
				}
			}
		}
		for _, b := range cf.G.Blocks {
			if !cf.Reachable(b) {
				continue
			}
			st := in[b]
			for _, nd := range b.Nodes {
				hasRead := false
				ast.Inspect(nd, func(k ast.Node) bool {
					if c, ok := k.(*ast.CallExpr); ok && core.CalleeName(info, c) == "decoder.Stream.read" {
						hasRead = true
					}
					return true
				})
				if hasRead {
					n++
					rc.CallSites++
					rc.Touch(p.FuncName(fd))
					key := p.FuncName(fd) + "/refill/cursor-written-back"
					if st {
						rc.OK(key, nd.Pos(), "s.cursor holds the local position when the window is refilled")
					} else {
						rc.Bad(key, nd.Pos(), "the local cursor moved since it was last written to s.cursor, and the window is refilled here: the re-take after the refill (s.stat) returns the old s.cursor, so the scan resumes at a stale position when a chunk ends inside this token")
					}
				}
				st = step(nd, st)
			}
		}
	}
	if n < 15 {
		rc.Unknown("decoder/refills-with-local-cursor", token.NoPos, "found %d refill sites in functions that keep a local cursor", n)
	}
}

// ---- C09.R8 after a refill behind a backslash the escaped byte is skipped, not dispatched again ----

func c09r8(rc *core.RC) {
	n := 0
	for _, d := range dispatchSites(rc) {
		if d.role != "in-string" {
			continue
		}
		info := d.cf.Info
		cc := d.bs.ClauseOf('\\')
		if cc == nil {
			continue
		}
		// only clauses that refill themselves; a clause that ends in `fallthrough` continues in the next one
		var retakes []*ast.CallExpr
		refills := false
		reach := []ast.Node{cc}
		for i, cl := range d.bs.Clauses {
			cur := cl
			for cur == reach[len(reach)-1] && i+1 < len(d.bs.Clauses) && len(cur.Body) > 0 {
				if br, ok := cur.Body[len(cur.Body)-1].(*ast.BranchStmt); !ok || br.Tok != token.FALLTHROUGH {
					break
				}
				i++
				cur = d.bs.Clauses[i]
				reach = append(reach, cur)
			}
		}
		inspectAll := func(f func(ast.Node) bool) {
			for _, r := range reach {
				ast.Inspect(r, f)
			}
		}
		inspectAll(func(m ast.Node) bool {
			if c, ok := m.(*ast.CallExpr); ok {
				switch core.CalleeName(info, c) {
				case "decoder.Stream.read":
					refills = true
				case "decoder.Stream.stat", "decoder.Stream.statForRetry":
					retakes = append(retakes, c)
				}
			}
			return true
		})
		if !refills || len(retakes) == 0 {
			continue
		}
		n++
		rc.Touch(d.fn)
		for _, c := range retakes {
			rc.Check(core.CalleeName(info, c) == "decoder.Stream.stat", d.key("backslash-refill-retake"), c.Pos(), "after the refill behind a backslash the window is re-taken with stat(): statForRetry steps the cursor back, which makes the loop dispatch the escaped byte (an escaped quote ends the string)")
		}
	}
	if n < 4 {
		rc.Unknown("decoder/backslash-refills", token.NoPos, "found %d in-string backslash clauses that refill (confirmed: skipObject, skipArray, skipValue, decodeKeyNotFoundStream)", n)
	}
}

// ---- C09.R9 buffer and stream key-escape decoders consume the same bytes ----

// cursorWalk follows every path of a function body and records, for each success return, how far
// the cursor moved from entry, and for each unicodeToRune operand where it starts (relative to the
// entry cursor) and how wide it is. The buffer sibling moves a parameter (`cursor += k`, returns
// `cursor + k`); the stream sibling moves s.cursor. Loops may not move the cursor.
type cursorWalk struct {
	info    *types.Info
	p       *core.Program
	isCur   func(e ast.Expr) bool // is e the cursor (param or s.cursor)
	retExpr func(r *ast.ReturnStmt) ast.Expr
	deltas  []int64
	hexOps  [][2]int64 // (start relative to entry, width)
	bad     string
}

func (w *cursorWalk) constOf(e ast.Expr) (int64, bool) { return core.ConstInt(w.info, e) }

// offsetOf evaluates e as cursor + c.
func (w *cursorWalk) offsetOf(e ast.Expr) (int64, bool) {
	e = core.Unparen(e)
	if w.isCur(e) {
		return 0, true
	}
	if be, ok := e.(*ast.BinaryExpr); ok && (be.Op == token.ADD || be.Op == token.SUB) {
		l, lok := w.offsetOf(be.X)
		r, rok := w.constOf(be.Y)
		if lok && rok {
			if be.Op == token.SUB {
				return l - r, true
			}
			return l + r, true
		}
	}
	return 0, false
}

func (w *cursorWalk) scanHex(n ast.Node, d int64) {
	ast.Inspect(n, func(k ast.Node) bool {
		c, ok := k.(*ast.CallExpr)
		if !ok || core.CalleeName(w.info, c) != "decoder.unicodeToRune" || len(c.Args) != 1 {
			return true
		}
		sl, ok := core.Unparen(c.Args[0]).(*ast.SliceExpr)
		if !ok || sl.Low == nil || sl.High == nil {
			w.bad = "unicodeToRune operand is not a two-bound slice"
			return true
		}
		lo, ok1 := w.offsetOf(sl.Low)
		hi, ok2 := w.offsetOf(sl.High)
		if !ok1 || !ok2 {
			w.bad = "unicodeToRune operand bounds are not cursor+constant"
			return true
		}
		w.hexOps = append(w.hexOps, [2]int64{d + lo, hi - lo})
		return true
	})
}

// walk returns the set of cursor offsets with which control can fall out of list.
func (w *cursorWalk) walk(list []ast.Stmt, in []int64) []int64 {
	cur := in
	for _, st := range list {
		if len(cur) == 0 {
			return nil
		}
		var next []int64
		for _, d := range cur {
			next = append(next, w.stmt(st, d)...)
		}
		cur = uniq64(next)
	}
	return cur
}

func uniq64(xs []int64) []int64 {
	seen := map[int64]bool{}
	var out []int64
	for _, x := range xs {
		if !seen[x] {
			seen[x] = true
			out = append(out, x)
		}
	}
	return out
}

func (w *cursorWalk) stmt(st ast.Stmt, d int64) []int64 {
	switch s := st.(type) {
	case *ast.ReturnStmt:
		if core.ReturnIsError(w.info, s) {
			return nil
		}
		if e := w.retExpr(s); e != nil {
			off, ok := w.offsetOf(e)
			if !ok {
				// delegation: return f(buf, cursor+k)
				w.bad = "returned cursor is not cursor+constant: " + core.Src(w.p.Fset, e)
				return nil
			}
			w.deltas = append(w.deltas, d+off)
		} else {
			w.deltas = append(w.deltas, d)
		}
		return nil
	case *ast.AssignStmt:
		w.scanHex(s, d)
		if len(s.Lhs) == 1 && w.isCur(s.Lhs[0]) {
			k, ok := w.constOf(s.Rhs[0])
			switch {
			case ok && s.Tok == token.ADD_ASSIGN:
				return []int64{d + k}
			case ok && s.Tok == token.SUB_ASSIGN:
				return []int64{d - k}
			default:
				if off, ok := w.offsetOf(s.Rhs[0]); ok && s.Tok == token.ASSIGN {
					return []int64{d + off}
				}
				w.bad = "cursor assigned a value that is not cursor+constant: " + core.Src(w.p.Fset, s)
			}
		}
		return []int64{d}
	case *ast.IncDecStmt:
		if w.isCur(s.X) {
			if s.Tok == token.INC {
				return []int64{d + 1}
			}
			return []int64{d - 1}
		}
		return []int64{d}
	case *ast.IfStmt:
		if s.Init != nil {
			w.scanHex(s.Init, d)
		}
		w.scanHex(s.Cond, d)
		outs := w.walk(s.Body.List, []int64{d})
		switch e := s.Else.(type) {
		case nil:
			outs = append(outs, d)
		case *ast.BlockStmt:
			outs = append(outs, w.walk(e.List, []int64{d})...)
		default:
			outs = append(outs, w.stmt(e, d)...)
		}
		return uniq64(outs)
	case *ast.ForStmt:
		// refill loops: the body may leave with an error, it may not move the cursor
		outs := w.walk(s.Body.List, []int64{d})
		for _, o := range outs {
			if o != d {
				w.bad = "a loop moves the cursor"
			}
		}
		return []int64{d}
	case *ast.BlockStmt:
		return w.walk(s.List, []int64{d})
	case *ast.BranchStmt:
		if s.Tok == token.BREAK || s.Tok == token.CONTINUE {
			return []int64{d}
		}
		w.bad = "goto in a key-escape decoder"
		return []int64{d}
	case *ast.DeclStmt, *ast.ExprStmt, *ast.EmptyStmt:
		w.scanHex(s, d)
		return []int64{d}
	}
	w.bad = fmt.Sprintf("statement %T not modelled", st)
	return []int64{d}
}

func c09r9(rc *core.RC) {
	p := rc.P
	bfd, sfd := p.Func("decoder", "decodeKeyCharByUnicodeRune"), p.Func("decoder", "decodeKeyCharByUnicodeRuneStream")
	key := "decoder.decodeKeyCharByUnicodeRune~Stream/cursor-deltas"
	if bfd == nil || sfd == nil {
		rc.Unknown(key, token.NoPos, "siblings not found")
		return
	}
	rc.Touch("decoder.decodeKeyCharByUnicodeRune")
	rc.Touch("decoder.decodeKeyCharByUnicodeRuneStream")
	// buffer sibling: the int64 parameter is the cursor, returned as the second result
	binfo := p.Info(bfd)
	var curObj types.Object
	for _, f := range bfd.Type.Params.List {
		for _, nm := range f.Names {
			if o := binfo.Defs[nm]; o != nil && o.Type().String() == "int64" {
				curObj = o
			}
		}
	}
	bw := &cursorWalk{info: binfo, p: p,
		isCur: func(e ast.Expr) bool { return curObj != nil && core.ObjOf(binfo, e) == curObj },
		retExpr: func(r *ast.ReturnStmt) ast.Expr {
			if len(r.Results) == 3 {
				return r.Results[1]
			}
			return nil
		}}
	bw.walk(bfd.Body.List, []int64{0})
	sinfo := p.Info(sfd)
	sw := &cursorWalk{info: sinfo, p: p,
		isCur: func(e ast.Expr) bool {
			f := core.FieldOf(sinfo, e)
			return f != nil && f.Name() == "cursor"
		},
		retExpr: func(r *ast.ReturnStmt) ast.Expr { return nil }}
	sw.walk(sfd.Body.List, []int64{0})
	if bw.bad != "" || sw.bad != "" {
		rc.Unknown(key, bfd.Pos(), "cursor arithmetic not in the modelled form: %s %s", bw.bad, sw.bad)
		return
	}
	sortI := func(xs []int64) []int64 { sort.Slice(xs, func(i, j int) bool { return xs[i] < xs[j] }); return xs }
	bd, sd := sortI(bw.deltas), sortI(sw.deltas)
	rc.Check(fmt.Sprint(bd) == fmt.Sprint(sd), key, sfd.Pos(), "cursor movement per success return: buffer %v, stream %v (bytes from the first hex digit to the last byte consumed); they must agree or a Decoder and Unmarshal continue at different bytes after the same escape", bd, sd)
	// operands of unicodeToRune: four digits, at the same places
	hkey := "decoder.decodeKeyCharByUnicodeRune~Stream/hex-operands"
	okW := true
	for _, h := range append(append([][2]int64{}, bw.hexOps...), sw.hexOps...) {
		if h[1] != 4 {
			okW = false
		}
	}
	rc.Check(okW && fmt.Sprint(bw.hexOps) == fmt.Sprint(sw.hexOps) && len(bw.hexOps) >= 2, hkey, sfd.Pos(), "unicodeToRune operands (start relative to the first hex digit, width): buffer %v, stream %v; each must be 4 bytes wide and both siblings must read the same places", bw.hexOps, sw.hexOps)
	// the position contract: both end on the last byte of what they consumed: 3 for one escape, 9 for a pair
	ckey := "decoder.decodeKeyCharByUnicodeRune~Stream/ends-on-last-byte"
	okC := len(bd) > 0
	for _, d := range bd {
		if d != 3 && d != 9 {
			okC = false
		}
	}
	rc.Check(okC, ckey, bfd.Pos(), "every success return leaves the cursor on the last byte of a 4-digit escape (+3) or of a surrogate pair (+9); got %v", bd)
}

// ---- C09.R10 every byte the reader delivered is counted, whatever came with it ----

// io.Reader may return n > 0 together with io.EOF or another error. (*Stream).read therefore has to
// add n to s.length on every path from the Read call to a return: a return taken first (for example
// on io.EOF) leaves the last bytes in the buffer but outside the window's length.
func c09r10(rc *core.RC) {
	p := rc.P
	fd := p.Func("decoder", "Stream.read")
	key := "decoder.(*Stream).read/delivered-bytes-counted"
	if fd == nil {
		rc.Unknown(key, token.NoPos, "not found")
		return
	}
	rc.Touch("decoder.(*Stream).read")
	info := p.Info(fd)
	cf := core.BuildCFG(fd.Body, info)
	var readNode, addNode ast.Node
	var nObj types.Object
	ast.Inspect(fd.Body, func(m ast.Node) bool {
		as, ok := m.(*ast.AssignStmt)
		if !ok {
			return true
		}
		if len(as.Rhs) == 1 {
			if c, ok := core.Unparen(as.Rhs[0]).(*ast.CallExpr); ok {
				if sel, ok := c.Fun.(*ast.SelectorExpr); ok && sel.Sel.Name == "Read" && len(as.Lhs) == 2 {
					readNode = as
					nObj = core.ObjOf(info, as.Lhs[0])
				}
			}
		}
		if as.Tok == token.ADD_ASSIGN && len(as.Lhs) == 1 {
			if f := core.FieldOf(info, as.Lhs[0]); f != nil && f.Name() == "length" {
				uses := false
				ast.Inspect(as.Rhs[0], func(k ast.Node) bool {
					if id, ok := k.(*ast.Ident); ok && nObj != nil && info.Uses[id] == nObj {
						uses = true
					}
					return true
				})
				if uses {
					addNode = as
				}
			}
		}
		return true
	})
	if readNode == nil {
		rc.Unknown(key, fd.Pos(), "the io.Reader call was not found")
		return
	}
	if addNode == nil {
		rc.Bad(key, readNode.Pos(), "the number of bytes the reader returned is never added to s.length")
		return
	}
	rb, ri := cf.BlockOf(readNode)
	ab, ai := cf.BlockOf(addNode)
	if rb == nil || ab == nil {
		rc.Unknown(key, fd.Pos(), "nodes not in the CFG")
		return
	}
	reach := cf.ReachableFrom(rb, nil)
	reach[rb] = true
	bad := false
	for _, r := range cf.Returns() {
		b, i := cf.BlockOf(r)
		if b == nil || !reach[b] || (b == rb && i < ri) {
			continue
		}
		if (b == ab && ai < i) || (b != ab && cf.Dominates(ab, b)) {
			continue
		}
		bad = true
		rc.Bad(key, r.Pos(), "this return is reached after r.Read without passing `%s`: bytes delivered together with io.EOF (or an error) stay outside the window, and the last piece of the document is not seen", core.Src(p.Fset, addNode))
		break
	}
	if !bad {
		rc.OK(key, addNode.Pos(), "`%s` lies on every path from the Read call to a return", core.Src(p.Fset, addNode))
	}
}

// ---- C09.R11 a scanning loop that advances first re-examines the byte it refilled on ----

// The digit scanners of stream mode are loops that begin with `s.cursor++` and then classify
// s.char(). When the classified byte is the NUL sentinel and s.read() delivers more input, the byte
// now at the cursor has not been looked at: the loop must step the cursor back before `continue`
// (the loop head advances again), otherwise the first byte of the new piece is swallowed into the
// token whatever it is.
func c09r11(rc *core.RC) {
	p := rc.P
	n := 0
	for _, fd := range p.Funcs("decoder") {
		if fd.Body == nil {
			continue
		}
		info := p.Info(fd)
		fn := p.FuncName(fd)
		isCursor := func(e ast.Expr) bool {
			f := core.FieldOf(info, e)
			return f != nil && f.Name() == "cursor" && strings.HasSuffix(f.Pkg().Path(), "internal/decoder")
		}
		k := 0
		ast.Inspect(fd.Body, func(m ast.Node) bool {
			loop, ok := m.(*ast.ForStmt)
			if !ok || loop.Cond != nil || len(loop.Body.List) == 0 {
				return true
			}
			first, ok := loop.Body.List[0].(*ast.IncDecStmt)
			if !ok || first.Tok != token.INC || !isCursor(first.X) {
				return true
			}
			// does the loop refill?
			refills := false
			ast.Inspect(loop.Body, func(x ast.Node) bool {
				if c, ok := x.(*ast.CallExpr); ok && core.CalleeName(info, c) == "decoder.Stream.read" {
					refills = true
				}
				return true
			})
			if !refills {
				return true
			}
			n++
			k++
			rc.Touch(fn)
			key := fmt.Sprintf("%s/advance-first-loop#%d retake-after-refill", fn, k)
			// every `continue` that can follow a successful read() is directly preceded by `s.cursor--`
			bad := token.NoPos
			var walk func(list []ast.Stmt, afterRead bool)
			walk = func(list []ast.Stmt, afterRead bool) {
				for i, st := range list {
					switch x := st.(type) {
					case *ast.IfStmt:
						callsRead := false
						ast.Inspect(x.Cond, func(c ast.Node) bool {
							if ce, ok := c.(*ast.CallExpr); ok && core.CalleeName(info, ce) == "decoder.Stream.read" {
								callsRead = true
							}
							return true
						})
						walk(x.Body.List, afterRead || callsRead)
						switch e := x.Else.(type) {
						case *ast.BlockStmt:
							walk(e.List, afterRead)
						case *ast.IfStmt:
							walk([]ast.Stmt{e}, afterRead)
						}
					case *ast.BranchStmt:
						if x.Tok == token.CONTINUE && afterRead {
							stepped := false
							if i > 0 {
								if d, ok := list[i-1].(*ast.IncDecStmt); ok && d.Tok == token.DEC && isCursor(d.X) {
									stepped = true
								}
							}
							if !stepped && bad == token.NoPos {
								bad = x.Pos()
							}
						}
					case *ast.BlockStmt:
						walk(x.List, afterRead)
					}
				}
			}
			walk(loop.Body.List[1:], false)
			if bad == token.NoPos {
				rc.OK(key, loop.Pos(), "after a refill the cursor is stepped back before the loop advances again")
			} else {
				rc.Bad(key, bad, "this `continue` follows a successful s.read() without `s.cursor--`: the loop head advances past the first byte of the new piece before it was classified, so a delimiter that arrives at a read boundary becomes part of the number")
			}
			return false
		})
	}
	if n < 4 {
		rc.Unknown("decoder/advance-first-loops", token.NoPos, "found %d refilling loops that begin with s.cursor++ (floatBytes, intDecoder ×2, uintDecoder expected)", n)
	}
}

// ---- C09.R12 the byte a refill delivers at the cursor is examined before the cursor moves past it ----

// When the sentinel NUL under the cursor turns out to be the end of the window and s.read()
// succeeds, the cursor now points at the first byte of the new piece, which no code has looked at.
// Every path from the success edge of a refill must classify that byte (s.char(), s.buf[s.cursor],
// char(p, cursor), a switch on it, or a hand-over of the stream to another reader) before the cursor
// advances beyond it; otherwise one byte of input is accepted unseen whenever a chunk boundary falls
// there. The rule walks go/cfg from every success edge, tracking for s.cursor and each local cursor
// copy its distance from the refilled position.
type refillWalk struct {
	rc      *core.RC
	info    *types.Info
	cf      *core.FuncCFG
	locals  map[types.Object]bool // locals that hold a copy of s.cursor somewhere in the function
	fn      string
	visited map[string]bool
	bad     token.Pos
	badMsg  string
	steps   int
	// argExamines: handing the cursor to a call (skipWhiteSpace(buf, cursor), d.dec.Decode(ctx, cursor, …))
	// counts as examining the byte there
	argExamines bool
}

const refillCursorKey = "s.cursor"

func isStreamCursor(info *types.Info, e ast.Expr) bool {
	f := core.FieldOf(info, e)
	return f != nil && f.Name() == "cursor" && f.Pkg() != nil && strings.HasSuffix(f.Pkg().Path(), "internal/decoder")
}

func isStreamValue(info *types.Info, e ast.Expr) bool {
	tv, ok := info.Types[e]
	if !ok || tv.Type == nil {
		return false
	}
	t := tv.Type
	if p, ok := t.(*types.Pointer); ok {
		t = p.Elem()
	}
	n, ok := t.(*types.Named)
	return ok && n.Obj().Name() == "Stream" && n.Obj().Pkg() != nil && strings.HasSuffix(n.Obj().Pkg().Path(), "internal/decoder")
}

// cursorVar names the cursor variable an expression denotes ("s.cursor" or a tracked local) with a
// constant offset: cursor, cursor+1, s.cursor-1 …
func (w *refillWalk) cursorVar(e ast.Expr) (string, int, bool) {
	e = core.Unparen(e)
	if be, ok := e.(*ast.BinaryExpr); ok && (be.Op == token.ADD || be.Op == token.SUB) {
		if k, isConst := core.ConstInt(w.info, be.Y); isConst {
			if v, off, ok := w.cursorVar(be.X); ok {
				if be.Op == token.SUB {
					k = -k
				}
				return v, off + int(k), true
			}
		}
		return "", 0, false
	}
	if c, ok := e.(*ast.CallExpr); ok && len(c.Args) == 1 {
		// conversions int(cursor)
		if tv, isType := w.info.Types[c.Fun]; isType && tv.IsType() {
			return w.cursorVar(c.Args[0])
		}
	}
	if isStreamCursor(w.info, e) {
		return refillCursorKey, 0, true
	}
	if id, ok := e.(*ast.Ident); ok {
		if o := w.info.Uses[id]; o != nil && w.locals[o] {
			return "l:" + id.Name, 0, true
		}
		if o := w.info.Defs[id]; o != nil && w.locals[o] {
			return "l:" + id.Name, 0, true
		}
	}
	return "", 0, false
}

type refillEvent struct {
	pos  token.Pos
	kind int // 0 examine, 1 move, 2 copy, 3 kill, 4 escape, 5 read, 6 return
	v    string
	src  string
	k    int
}

func (w *refillWalk) events(n ast.Node) []refillEvent {
	var evs []refillEvent
	info := w.info
	skip := map[ast.Node]bool{}
	ast.Inspect(n, func(m ast.Node) bool {
		if m == nil || skip[m] {
			return false
		}
		switch x := m.(type) {
		case *ast.FuncLit:
			return false
		case *ast.ReturnStmt:
			evs = append(evs, refillEvent{pos: x.End(), kind: 6})
		case *ast.IncDecStmt:
			if v, _, ok := w.cursorVar(x.X); ok {
				d := 1
				if x.Tok == token.DEC {
					d = -1
				}
				evs = append(evs, refillEvent{pos: x.Pos(), kind: 1, v: v, k: d})
				return false
			}
		case *ast.AssignStmt:
			// statForRetry / stat
			if len(x.Rhs) == 1 && len(x.Lhs) == 3 {
				if c, ok := core.Unparen(x.Rhs[0]).(*ast.CallExpr); ok {
					name := core.CalleeName(info, c)
					if name == "decoder.Stream.stat" || name == "decoder.Stream.statForRetry" {
						if name == "decoder.Stream.statForRetry" {
							evs = append(evs, refillEvent{pos: x.Pos(), kind: 1, v: refillCursorKey, k: -1})
						}
						if v, _, ok := w.cursorVar(x.Lhs[1]); ok {
							evs = append(evs, refillEvent{pos: x.Pos() + 1, kind: 2, v: v, src: refillCursorKey})
						}
						return false
					}
				}
			}
			if len(x.Lhs) == len(x.Rhs) {
				for i, l := range x.Lhs {
					v, off, ok := w.cursorVar(l)
					if !ok || off != 0 {
						continue
					}
					skip[l] = true
					switch x.Tok {
					case token.ADD_ASSIGN, token.SUB_ASSIGN:
						if k, isConst := core.ConstInt(info, x.Rhs[i]); isConst {
							if x.Tok == token.SUB_ASSIGN {
								k = -k
							}
							evs = append(evs, refillEvent{pos: x.Pos(), kind: 1, v: v, k: int(k)})
						} else {
							evs = append(evs, refillEvent{pos: x.Pos(), kind: 3, v: v})
						}
					case token.ASSIGN, token.DEFINE:
						if sv, soff, isCur := w.cursorVar(x.Rhs[i]); isCur {
							evs = append(evs, refillEvent{pos: x.End(), kind: 2, v: v, src: sv, k: soff})
							skip[x.Rhs[i]] = true
						} else {
							evs = append(evs, refillEvent{pos: x.End(), kind: 3, v: v})
						}
					default:
						evs = append(evs, refillEvent{pos: x.Pos(), kind: 3, v: v})
					}
				}
			}
		case *ast.IndexExpr:
			if v, off, ok := w.cursorVar(x.Index); ok {
				evs = append(evs, refillEvent{pos: x.Pos(), kind: 0, v: v, k: off})
			}
		case *ast.SliceExpr:
			// buf[cursor : cursor+n] handed to a classifier (unicodeToRune, bytes.Equal …)
			if x.Low != nil && x.High != nil {
				if v, off, ok := w.cursorVar(x.Low); ok {
					evs = append(evs, refillEvent{pos: x.Pos(), kind: 0, v: v, k: off})
				}
			}
		case *ast.CallExpr:
			name := core.CalleeName(info, x)
			switch name {
			case "decoder.Stream.char":
				evs = append(evs, refillEvent{pos: x.Pos(), kind: 0, v: refillCursorKey})
				return false
			case "decoder.Stream.read":
				evs = append(evs, refillEvent{pos: x.Pos(), kind: 5})
				return false
			case "decoder.char":
				if len(x.Args) == 2 {
					if v, off, ok := w.cursorVar(x.Args[1]); ok {
						evs = append(evs, refillEvent{pos: x.Pos(), kind: 0, v: v, k: off})
					}
				}
				return false
			case "decoder.Stream.totalOffset", "decoder.Stream.bufptr", "decoder.Stream.ReadErr", "decoder.Stream.stat", "decoder.Stream.statForRetry":
				return false
			}
			if tv, isType := info.Types[x.Fun]; isType && tv.IsType() {
				return true
			}
			if _, isBuiltin := info.Uses[calleeIdent(x.Fun)].(*types.Builtin); isBuiltin {
				return true
			}
			if w.argExamines {
				for _, a := range x.Args {
					if v, off, ok := w.cursorVar(a); ok {
						evs = append(evs, refillEvent{pos: a.Pos(), kind: 0, v: v, k: off})
					}
				}
			}
			// the stream handed to other code (receiver or argument): that code examines what is under the cursor
			hands := false
			if sel, ok := core.Unparen(x.Fun).(*ast.SelectorExpr); ok && isStreamValue(info, sel.X) {
				hands = true
			}
			for _, a := range x.Args {
				if isStreamValue(info, a) {
					hands = true
				}
			}
			if hands {
				evs = append(evs, refillEvent{pos: x.Pos(), kind: 4})
			}
		}
		return true
	})
	sort.SliceStable(evs, func(i, j int) bool { return evs[i].pos < evs[j].pos })
	return evs
}

func calleeIdent(e ast.Expr) *ast.Ident {
	switch x := core.Unparen(e).(type) {
	case *ast.Ident:
		return x
	case *ast.SelectorExpr:
		return x.Sel
	}
	return nil
}

func refillStateKey(b *cfg.Block, i int, d map[string]int) string {
	ks := make([]string, 0, len(d))
	for k := range d {
		ks = append(ks, k)
	}
	sort.Strings(ks)
	s := fmt.Sprintf("%d:%d", b.Index, i)
	for _, k := range ks {
		s += fmt.Sprintf("|%s=%d", k, d[k])
	}
	return s
}

// run walks from node index i of block b with the given distances; it records the first violation.
func (w *refillWalk) run(b *cfg.Block, i int, d map[string]int) {
	if w.bad != token.NoPos || b == nil {
		return
	}
	key := refillStateKey(b, i, d)
	if w.visited[key] {
		return
	}
	w.visited[key] = true
	w.steps++
	if w.steps > 20000 {
		return
	}
	cur := map[string]int{}
	for k, v := range d {
		cur[k] = v
	}
	for ; i < len(b.Nodes); i++ {
		for _, ev := range w.events(b.Nodes[i]) {
			switch ev.kind {
			case 0:
				dist, tracked := cur[ev.v]
				if !tracked {
					continue
				}
				at := dist + ev.k
				if at <= 0 {
					if at == 0 {
						return // examined
					}
					continue // an earlier byte looked at again: keep walking
				}
				if ev.k == 0 {
					w.bad = ev.pos
					w.badMsg = fmt.Sprintf("the next byte is examined with the cursor (%s) %d byte(s) further on: the byte at the starting position is never looked at", strings.TrimPrefix(ev.v, "l:"), dist)
					return
				}
			case 1:
				if _, tracked := cur[ev.v]; tracked {
					cur[ev.v] += ev.k
					if cur[ev.v] > 4 || cur[ev.v] < -4 {
						return
					}
				}
			case 2:
				if sd, tracked := cur[ev.src]; tracked {
					cur[ev.v] = sd + ev.k
				} else {
					delete(cur, ev.v)
				}
			case 3:
				delete(cur, ev.v)
				if len(cur) == 0 {
					return
				}
			case 4:
				if dist, tracked := cur[refillCursorKey]; tracked && dist > 0 {
					w.bad = ev.pos
					w.badMsg = fmt.Sprintf("the stream is handed on with s.cursor %d byte(s) further on: the byte at the starting position is never looked at", dist)
				}
				return
			case 5, 6:
				return
			}
		}
	}
	for _, s := range b.Succs {
		w.run(s, 0, cur)
	}
}

func c09r12(rc *core.RC) {
	p := rc.P
	sites := 0
	for _, fd := range p.Funcs("decoder") {
		if fd.Body == nil {
			continue
		}
		info := p.Info(fd)
		fn := p.FuncName(fd)
		if fn == "decoder.(*Stream).read" || fn == "decoder.Stream.read" {
			continue
		}
		var reads []*ast.CallExpr
		ast.Inspect(fd.Body, func(m ast.Node) bool {
			if _, isLit := m.(*ast.FuncLit); isLit {
				return false
			}
			if c, ok := m.(*ast.CallExpr); ok && core.CalleeName(info, c) == "decoder.Stream.read" {
				reads = append(reads, c)
			}
			return true
		})
		if len(reads) == 0 {
			continue
		}
		rc.Touch(fn)
		cf := core.BuildCFG(fd.Body, info)
		// locals that ever receive a copy of s.cursor
		locals := map[types.Object]bool{}
		ast.Inspect(fd.Body, func(m ast.Node) bool {
			as, ok := m.(*ast.AssignStmt)
			if !ok {
				return true
			}
			if len(as.Rhs) == 1 && len(as.Lhs) == 3 {
				if c, ok := core.Unparen(as.Rhs[0]).(*ast.CallExpr); ok {
					if n := core.CalleeName(info, c); n == "decoder.Stream.stat" || n == "decoder.Stream.statForRetry" {
						if o := core.ObjOf(info, as.Lhs[1]); o != nil {
							locals[o] = true
						}
					}
				}
			}
			if len(as.Lhs) == len(as.Rhs) {
				for i, r := range as.Rhs {
					if isStreamCursor(info, r) {
						if o := core.ObjOf(info, as.Lhs[i]); o != nil {
							locals[o] = true
						}
					}
				}
			}
			return true
		})
		for k, call := range reads {
			sites++
			rc.CallSites++
			key := fmt.Sprintf("%s/refill#%d examined-before-advance", fn, k+1)
			blk, idx := cf.BlockOf(call)
			if blk == nil {
				rc.Unknown(key, call.Pos(), "refill not found in the flow graph")
				continue
			}
			if !cf.Reachable(blk) {
				rc.Note(key, call.Pos(), "unreachable")
				continue
			}
			node := blk.Nodes[idx]
			// which successor is taken when the refill succeeded?
			var starts []*cfg.Block
			startIdx := 0
			cond, isCond := node.(ast.Expr)
			if isCond && idx == len(blk.Nodes)-1 && len(blk.Succs) == 2 {
				pol, ok := readPolarity(info, cond, call)
				if !ok {
					rc.Unknown(key, call.Pos(), "the condition %s does not tell on which branch the refill succeeded", types.ExprString(cond))
					continue
				}
				if pol {
					starts = []*cfg.Block{blk.Succs[0]}
				} else {
					starts = []*cfg.Block{blk.Succs[1]}
				}
			} else if es, isStmt := node.(*ast.ExprStmt); isStmt && core.Unparen(es.X) == ast.Expr(call) {
				starts = []*cfg.Block{blk}
				startIdx = idx + 1
			} else {
				rc.Unknown(key, call.Pos(), "the result of the refill is used in a form this rule does not follow")
				continue
			}
			first := 0
			switch refillContext(info, fd.Body, call) {
			case "after-failed-refill":
				rc.Note(key, call.Pos(), "retry in the NUL clause of `switch s.skipWhiteSpace()`: skipWhiteSpace returns NUL only after its own refill failed, so this one succeeds only for a reader that failed and then recovered, and the call reports that failure (C09.R3)")
				continue
			case "escaped":
				// the refilled position holds the byte behind a backslash: it is consumed as part of the
				// escape (C09.R8; which letters are legal is C05.R1), so exactly one byte may be passed
				first = -1
			}
			w := &refillWalk{rc: rc, info: info, cf: cf, locals: locals, fn: fn, visited: map[string]bool{}}
			init := map[string]int{refillCursorKey: first}
			for o := range locals {
				init["l:"+o.Name()] = first
			}
			for _, s := range starts {
				w.run(s, startIdx, init)
			}
			if w.bad != token.NoPos {
				rc.Bad(key, w.bad, "after the refill at %s succeeds (its first new byte is at the cursor), %s — a byte that arrives at a read boundary is accepted whatever it is", p.Fset.Position(call.Pos()).String()[strings.LastIndex(p.Fset.Position(call.Pos()).String(), "/")+1:], w.badMsg)
			} else {
				rc.OK(key, call.Pos(), "on every path from the success edge the byte under the cursor is examined (or the stream handed on at that position) before the cursor passes it")
			}
		}
	}
	if sites < 40 {
		rc.Unknown("decoder/refill-sites", token.NoPos, "found %d refill sites (50 confirmed)", sites)
	}
}

// readPolarity: on which edge of cond did the call return true? (true = then-edge)
func readPolarity(info *types.Info, cond ast.Expr, call *ast.CallExpr) (bool, bool) {
	cond = core.Unparen(cond)
	switch x := cond.(type) {
	case *ast.CallExpr:
		if x == call {
			return true, true
		}
	case *ast.UnaryExpr:
		if x.Op == token.NOT {
			if pol, ok := readPolarity(info, x.X, call); ok {
				// !read(): success on the false edge, but only if the operand is the call itself
				if core.Unparen(x.X) == ast.Expr(call) {
					return !pol, true
				}
			}
		}
	case *ast.BinaryExpr:
		if x.Op == token.LAND {
			// a && read(): the then-edge implies read() returned true
			for _, side := range []ast.Expr{x.X, x.Y} {
				if pol, ok := readPolarity(info, side, call); ok && pol {
					return true, true
				}
			}
		}
		if x.Op == token.LOR {
			// a || !read(): the else-edge implies read() returned true
			for _, side := range []ast.Expr{x.X, x.Y} {
				if pol, ok := readPolarity(info, side, call); ok && !pol {
					return false, true
				}
			}
		}
	}
	return false, false
}

// refillContext classifies the switch clause a refill sits in: "escaped" when the innermost
// enclosing case clause is the backslash clause of a byte switch, "after-failed-refill" when it is
// the NUL clause of a switch on s.skipWhiteSpace().
func refillContext(info *types.Info, body *ast.BlockStmt, call *ast.CallExpr) string {
	path := core.PathTo(body, call)
	for i := len(path) - 1; i >= 0; i-- {
		cc, ok := path[i].(*ast.CaseClause)
		if !ok {
			continue
		}
		has := func(b int64) bool {
			for _, l := range cc.List {
				if v, isConst := core.ConstInt(info, l); isConst && v == b {
					return true
				}
			}
			return false
		}
		if has('\\') && len(cc.List) == 1 {
			return "escaped"
		}
		if has(0) && len(cc.List) == 1 && i >= 2 {
			if sw, isSwitch := path[i-2].(*ast.SwitchStmt); isSwitch && sw.Tag != nil {
				if c, isCall := core.Unparen(sw.Tag).(*ast.CallExpr); isCall && core.CalleeName(info, c) == "decoder.Stream.skipWhiteSpace" {
					return "after-failed-refill"
				}
			}
		}
		return ""
	}
	return ""
}

// ---- C09.R14 a value that was skipped and captured is not read from the stream again ----

// Several stream-mode decoders step over a whole value with s.skipValue and then work on the text they stepped over
// (`src := s.buf[start:s.cursor]`). After that capture the cursor stands behind the value: any further reader on
// the stream (nullBytes, trueBytes, another skipValue, a DecodeStream) consumes what FOLLOWS the value. In these
// functions no call that moves the stream may come after the capture.
func c09r14(rc *core.RC) {
	p := rc.P
	n := 0
	consuming := func(name string) bool {
		for _, s := range []string{"nullBytes", "trueBytes", "falseBytes", "stringBytes", "floatBytes", "skipValue", "skipObject", "skipArray", "skipWhiteSpace", "DecodeStream", "decodeStreamByte", "read", "Token"} {
			if strings.HasSuffix(name, "."+s) || name == "decoder."+s {
				return true
			}
		}
		return false
	}
	for _, fd := range p.Funcs("decoder") {
		if fd.Body == nil {
			continue
		}
		info := p.Info(fd)
		// the capture: a slice of s.buf whose high bound is s.cursor, after a skipValue call
		var skip *ast.CallExpr
		var capture ast.Node
		ast.Inspect(fd.Body, func(m ast.Node) bool {
			switch x := m.(type) {
			case *ast.CallExpr:
				if skip == nil && strings.HasSuffix(core.CalleeName(info, x), "Stream.skipValue") {
					skip = x
				}
			case *ast.SliceExpr:
				if skip != nil && capture == nil && x.Pos() > skip.Pos() && x.High != nil && isStreamCursor(info, x.High) {
					if f := core.FieldOf(info, x.X); f != nil && f.Name() == "buf" {
						capture = x
					}
				}
			}
			return true
		})
		if skip == nil || capture == nil {
			continue
		}
		n++
		fn := p.FuncName(fd)
		rc.Touch(fn)
		key := fn + "/no-stream-reader-after-captured-skip"
		var bad []string
		var at token.Pos
		ast.Inspect(fd.Body, func(m ast.Node) bool {
			c, ok := m.(*ast.CallExpr)
			if !ok || c.Pos() < capture.End() {
				return true
			}
			name := core.CalleeName(info, c)
			if !consuming(name) {
				return true
			}
			// on the stream: receiver or argument is a *Stream
			onStream := false
			if sel, isSel := c.Fun.(*ast.SelectorExpr); isSel && isStreamValue(info, sel.X) {
				onStream = true
			}
			for _, a := range c.Args {
				if isStreamValue(info, a) {
					onStream = true
				}
			}
			if onStream {
				bad = append(bad, core.Src(p.Fset, c.Fun))
				if !at.IsValid() {
					at = c.Pos()
				}
			}
			return true
		})
		if len(bad) == 0 {
			rc.OK(key, capture.Pos(), "after the skipped value was captured (%s) nothing moves the stream: the function works on the captured text", core.Src(p.Fset, capture))
		} else {
			rc.Bad(key, at, "%s steps over the value with skipValue, captures its text, and then calls %s on the stream: that reader consumes what follows the value ({\"F\":null} into a func field fails through a Decoder because `}` is read as the second letter-by-letter null; {\"F\":nullnull} is accepted)", fn, strings.Join(bad, ", "))
		}
	}
	if n < 3 {
		rc.Unknown("decoder/captured-skips", token.NoPos, "found %d stream functions that capture a skipped value (confirmed: funcDecoder.DecodeStream, decodeStreamUnmarshaler, decodeStreamUnmarshalerContext, the text unmarshaler)", n)
	}
}

// ---- C09.R15 the buffer and the stream method of a decoder call the same helpers ----

// Every decoder type has two methods that must decide alike: Decode (buffer mode) and DecodeStream. Whatever one of
// them calls to validate, convert, allocate or store (validNumber, parseInt, unsafe_New, typedmemmove, the element
// decoder, the error constructors of the type) the other has to call too. The two sets of module callees are
// compared under the naming of the two modes (validateNull ~ nullBytes, decodeByte ~ decodeStreamByte, Decode ~
// DecodeStream, …); what is only plumbing of one mode (reading the window, refilling, offsets) is left out.
func c09r15(rc *core.RC) {
	p := rc.P
	plumbing := map[string]bool{"char": true, "read": true, "reset": true, "totalOffset": true, "equalChar": true, "stat": true, "statForRetry": true, "bufptr": true, "skipWhiteSpace": true, "PrepareForDecode": true}
	// buffer-mode name -> common name; stream-mode name -> common name
	common := map[string]string{
		"validateNull": "null-literal", "nullBytes": "null-literal",
		"validateTrue": "true-literal", "trueBytes": "true-literal",
		"validateFalse": "false-literal", "falseBytes": "false-literal",
		"decodeByte": "token", "decodeStreamByte": "token",
		"decodeBinary": "binary", "decodeStreamBinary": "binary",
		"Decode": "decode", "DecodeStream": "decode",
		"decodeEmptyInterface": "empty-interface", "decodeStreamEmptyInterface": "empty-interface",
		"decodeUnmarshaler": "unmarshaler", "decodeStreamUnmarshaler": "unmarshaler",
		"decodeUnmarshalerContext": "unmarshaler-context", "decodeStreamUnmarshalerContext": "unmarshaler-context",
		"decodeTextUnmarshaler": "text-unmarshaler", "decodeStreamTextUnmarshaler": "text-unmarshaler",
		"keyDecoder": "key-decoder", "keyStreamDecoder": "key-decoder",
	}
	type methods struct{ buf, stream *ast.FuncDecl }
	byRecv := map[string]*methods{}
	var order []string
	for _, fd := range p.Funcs("decoder") {
		if fd.Recv == nil || fd.Body == nil || (fd.Name.Name != "Decode" && fd.Name.Name != "DecodeStream") {
			continue
		}
		r := core.RecvString(fd.Recv.List[0].Type)
		if byRecv[r] == nil {
			byRecv[r] = &methods{}
			order = append(order, r)
		}
		if fd.Name.Name == "Decode" {
			byRecv[r].buf = fd
		} else {
			byRecv[r].stream = fd
		}
	}
	calleeSet := func(fd *ast.FuncDecl) map[string]bool {
		info := p.Info(fd)
		out := map[string]bool{}
		ast.Inspect(fd.Body, func(m ast.Node) bool {
			c, ok := m.(*ast.CallExpr)
			if !ok {
				return true
			}
			var id *ast.Ident
			switch f := c.Fun.(type) {
			case *ast.Ident:
				id = f
			case *ast.SelectorExpr:
				id = f.Sel
			}
			if id == nil {
				return true
			}
			var pkgPath string
			switch o := info.Uses[id].(type) {
			case *types.Func:
				if o.Pkg() != nil {
					pkgPath = o.Pkg().Path()
				}
			case *types.Var: // a function stored in a field (d.op, d.keyDecoder)
				if o.Pkg() != nil {
					pkgPath = o.Pkg().Path()
				}
			}
			if !strings.HasPrefix(pkgPath, core.ModPath) {
				return true
			}
			name := id.Name
			if plumbing[name] {
				return true
			}
			if cn, ok := common[name]; ok {
				name = cn
			}
			if strings.HasSuffix(pkgPath, "internal/errors") {
				name = "errors." + name
			}
			out[name] = true
			return true
		})
		return out
	}
	// differences confirmed by reading: what one mode reports through a helper the other reports itself
	accepted := map[string]string{
		"(*arrayDecoder)/errors.ErrInvalidCharacter":    "buffer mode names the offending byte itself; stream mode reports it through skipWhiteSpace's caller (errors.ErrExpected is shared)",
		"(*sliceDecoder)/errors.ErrInvalidCharacter":    "as for arrayDecoder",
		"(*funcDecoder)/true-literal":                   "the stream twin works on the text s.skipValue stepped over, which skipValue has read letter by letter (trueBytes); the buffer twin validates the literal again",
		"(*funcDecoder)/false-literal":                  "as for true-literal",
		"(*floatDecoder)/errors.ErrUnexpectedEndOfJSON": "buffer mode reports a token that ends the input in Decode; stream mode does in decodeStreamByte",
	}
	n := 0
	for _, r := range order {
		m := byRecv[r]
		if m.buf == nil || m.stream == nil {
			continue
		}
		n++
		fn := "decoder." + r
		rc.Touch(fn + ".Decode")
		rc.Touch(fn + ".DecodeStream")
		a, b := calleeSet(m.buf), calleeSet(m.stream)
		var onlyBuf, onlyStream []string
		for k := range a {
			if !b[k] && accepted[r+"/"+k] == "" {
				onlyBuf = append(onlyBuf, k)
			}
		}
		for k := range b {
			if !a[k] && accepted[r+"/"+k] == "" {
				onlyStream = append(onlyStream, k)
			}
		}
		sort.Strings(onlyBuf)
		sort.Strings(onlyStream)
		key := fn + "/buffer-and-stream-call-the-same-helpers"
		if len(onlyBuf) == 0 && len(onlyStream) == 0 {
			rc.OK(key, m.buf.Pos(), "Decode and DecodeStream call the same %d module helpers (mode naming and window plumbing aside)", len(a))
		} else {
			rc.Bad(key, m.stream.Pos(), "Decode calls %s that DecodeStream does not, DecodeStream calls %s that Decode does not: a validation, conversion, allocation or error that only one mode performs makes Decoder.Decode and Unmarshal disagree", orNone(strings.Join(onlyBuf, ", ")), orNone(strings.Join(onlyStream, ", ")))
		}
	}
	if n < 18 {
		rc.Unknown("decoder/method-twins", token.NoPos, "found %d decoder types with both Decode and DecodeStream (confirmed: 20)", n)
	}
}

// ---- C09.R16 a decision on the current stream byte is taken behind the refill ----

// In stream mode the window ends with a NUL that stands for "more input may follow": a byte read with s.char() can
// be that terminator. s.skipWhiteSpace() refills at the terminator and returns a real byte (or NUL at the true end).
// Where a stream decoder decides on the current byte with an `if` (is it the 'n' of null, a quote, a bracket) the
// byte compared has to come from skipWhiteSpace: its result, or s.char() directly behind a skipWhiteSpace call. A
// fast path that reads s.char() first and calls skipWhiteSpace only for white space takes the terminator for "not
// null": a pointer member whose null starts a new window is allocated where buffer mode stores nil.
func c09r16(rc *core.RC) {
	p := rc.P
	n := 0
	for _, fd := range p.Funcs("decoder") {
		if fd.Body == nil {
			continue
		}
		info := p.Info(fd)
		fn := p.FuncName(fd)
		isStreamCall := func(e ast.Expr, name string) bool {
			c, ok := core.Unparen(e).(*ast.CallExpr)
			return ok && core.CalleeName(info, c) == "decoder.Stream."+name
		}
		// definitions of byte variables
		defs := map[types.Object][]ast.Expr{}
		defPos := map[ast.Expr]*ast.AssignStmt{}
		ast.Inspect(fd.Body, func(m ast.Node) bool {
			as, ok := m.(*ast.AssignStmt)
			if !ok || len(as.Lhs) != len(as.Rhs) {
				return true
			}
			for i, l := range as.Lhs {
				if o := core.ObjOf(info, l); o != nil {
					defs[o] = append(defs[o], as.Rhs[i])
					defPos[as.Rhs[i]] = as
				}
			}
			return true
		})
		// charBehindSkip: the s.char() call at node stands directly behind a statement that calls skipWhiteSpace (same
		// block, nothing in between but the statement itself)
		charBehindSkip := func(at ast.Node) bool {
			path := core.PathTo(fd.Body, at)
			for i := len(path) - 1; i >= 1; i-- {
				if _, isClause := path[i].(*ast.CaseClause); isClause {
					continue // sibling clauses are alternatives, not predecessors
				}
				var list []ast.Stmt
				switch c := path[i-1].(type) {
				case *ast.BlockStmt:
					list = c.List
				case *ast.CaseClause:
					list = c.Body
				default:
					continue
				}
				for j, st := range list {
					if ast.Node(st) != path[i] {
						continue
					}
					if j == 0 {
						break // first statement of its list: what precedes the enclosing statement counts
					}
					found := false
					ast.Inspect(list[j-1], func(m ast.Node) bool {
						if e, isE := m.(ast.Expr); isE && isStreamCall(e, "skipWhiteSpace") {
							found = true
						}
						return true
					})
					return found
				}
			}
			return false
		}
		var fromSkip func(e ast.Expr, at ast.Node, depth int) (bool, string)
		fromSkip = func(e ast.Expr, at ast.Node, depth int) (bool, string) {
			e = core.Unparen(e)
			switch {
			case isStreamCall(e, "skipWhiteSpace"):
				return true, ""
			case isStreamCall(e, "char"):
				if charBehindSkip(at) {
					return true, ""
				}
				return false, "s.char() that does not stand behind a skipWhiteSpace call"
			}
			if id, ok := e.(*ast.Ident); ok && depth < 3 {
				ds := defs[core.ObjOf(info, id)]
				if len(ds) == 0 {
					return false, id.Name + " (no definition found)"
				}
				for _, d := range ds {
					if ok2, why := fromSkip(d, defPos[d], depth+1); !ok2 {
						return false, id.Name + " = " + why
					}
				}
				return true, ""
			}
			return false, core.Src(p.Fset, e)
		}
		k := 0
		ast.Inspect(fd.Body, func(m ast.Node) bool {
			ifs, ok := m.(*ast.IfStmt)
			if !ok {
				return true
			}
			for _, cj := range append(conjuncts(ifs.Cond), disjuncts(ifs.Cond)...) {
				be, isBin := core.Unparen(cj).(*ast.BinaryExpr)
				if !isBin || (be.Op != token.EQL && be.Op != token.NEQ) {
					continue
				}
				v, isC := core.ConstInt(info, be.Y)
				if !isC || v == 0 || v > 127 {
					continue
				}
				// the left side is the current stream byte?
				x := core.Unparen(be.X)
				isByte := isStreamCall(x, "char") || isStreamCall(x, "skipWhiteSpace")
				if id, isID := x.(*ast.Ident); isID {
					for _, d := range defs[core.ObjOf(info, id)] {
						if isStreamCall(d, "char") || isStreamCall(d, "skipWhiteSpace") {
							isByte = true
						}
					}
				}
				if !isByte {
					continue
				}
				k++
				n++
				rc.Touch(fn)
				key := fmt.Sprintf("%s/byte-decision#%d behind-the-refill", fn, k)
				ok2, why := fromSkip(x, ifs, 0)
				rc.Check(ok2, key, be.Pos(), "the byte compared with %q comes from skipWhiteSpace, which refills the window at its terminator%s", rune(v), map[bool]string{true: "", false: "; here it can be " + why + ": at the end of a window that is the NUL terminator, the comparison fails, and a value that begins in the next window is taken for something else"}[ok2])
				break
			}
			return true
		})
	}
	if n < 4 {
		rc.Unknown("decoder/stream-byte-decisions", token.NoPos, "found %d if-decisions on the current stream byte (confirmed: 4)", n)
	}
}

// ---- C09.R17 the two decoders of a TextUnmarshaler held by an interface prepare the text alike ----

// decodeTextUnmarshaler (buffer) and decodeStreamTextUnmarshaler (stream) serve an interface that holds a
// TextUnmarshaler. Both skip white space in front of the value, delimit it with skipValue and hand the method the
// text of the string: both call unquoteBytes. Without it the stream twin passes the literal with its quotes.
func c09r17(rc *core.RC) {
	p := rc.P
	n := 0
	calls := func(fd *ast.FuncDecl, suffix string) bool {
		info := p.Info(fd)
		found := false
		ast.Inspect(fd.Body, func(m ast.Node) bool {
			if c, ok := m.(*ast.CallExpr); ok && strings.HasSuffix(core.CalleeName(info, c), suffix) {
				found = true
			}
			return true
		})
		return found
	}
	for _, name := range []string{"decodeTextUnmarshaler", "decodeStreamTextUnmarshaler"} {
		fd := p.Func("decoder", name)
		if fd == nil || fd.Body == nil {
			rc.Unknown("decoder."+name, token.NoPos, "function not found")
			continue
		}
		rc.Touch("decoder." + name)
		for _, need := range []struct{ suffix, what string }{{"unquoteBytes", "unquotes the literal"}, {"kipWhiteSpace", "skips white space in front of the value"}, {"kipValue", "delimits the value with skipValue"}} {
			n++
			rc.Check(calls(fd, need.suffix), fmt.Sprintf("decoder.%s/%s", name, strings.ReplaceAll(need.what, " ", "-")), fd.Pos(), "%s %s before it calls UnmarshalText, like its twin of the other mode", name, need.what)
		}
	}
	if n < 6 {
		rc.Unknown("decoder/text-unmarshaler-twins", token.NoPos, "found %d of the six obligations", n)
	}
}

// ---- C09.R18 every Decoder method that can fail looks at the reader's error ----

// Stream.read keeps a reader error other than io.EOF in Stream.readErr and reports "no more input". To the scanners
// that is the end of the input: a number ends there, Token answers io.EOF. The methods of json.Decoder that return
// an error therefore have to look at readErr (directly, through Stream.ReadErr, or in the Stream method they call)
// before they answer: Decode did, Token did not (the caller of Token saw a clean end of input after a failed read).
func c09r18(rc *core.RC) {
	p := rc.P
	jp := p.Pkg("json")
	if jp == nil {
		rc.Unknown("json", token.NoPos, "package not found")
		return
	}
	looks := func(fd *ast.FuncDecl) bool {
		info := p.Info(fd)
		hit := false
		written := map[ast.Expr]bool{}
		ast.Inspect(fd.Body, func(m ast.Node) bool {
			if as, ok := m.(*ast.AssignStmt); ok {
				for _, l := range as.Lhs {
					written[core.Unparen(l)] = true
				}
			}
			return true
		})
		ast.Inspect(fd.Body, func(m ast.Node) bool {
			switch x := m.(type) {
			case *ast.SelectorExpr:
				if f := core.FieldOf(info, x); f != nil && f.Name() == "readErr" && !written[x] {
					hit = true
				}
			case *ast.CallExpr:
				if core.CalleeName(info, x) == "decoder.Stream.ReadErr" {
					hit = true
				}
			}
			return true
		})
		return hit
	}
	var reach func(fd *ast.FuncDecl, depth int, seen map[*ast.FuncDecl]bool) bool
	reach = func(fd *ast.FuncDecl, depth int, seen map[*ast.FuncDecl]bool) bool {
		if fd == nil || fd.Body == nil || seen[fd] {
			return false
		}
		seen[fd] = true
		if looks(fd) {
			return true
		}
		if depth >= 2 {
			return false
		}
		info := p.Info(fd)
		found := false
		ast.Inspect(fd.Body, func(m ast.Node) bool {
			c, ok := m.(*ast.CallExpr)
			if !ok || found {
				return true
			}
			f := core.Callee(info, c)
			if f == nil || f.Pkg() == nil {
				return true
			}
			// methods of Decoder and of Stream only: the value decoders below have no business with the reader
			sig, _ := f.Type().(*types.Signature)
			if sig == nil || sig.Recv() == nil {
				return true
			}
			rt := strings.TrimPrefix(sig.Recv().Type().String(), "*")
			if !strings.HasSuffix(rt, "go-json.Decoder") && !strings.HasSuffix(rt, "decoder.Stream") {
				return true
			}
			if reach(p.DeclOf(f), depth+1, seen) {
				found = true
			}
			return true
		})
		return found
	}
	n := 0
	for _, fd := range p.Funcs("json") {
		if fd.Recv == nil || fd.Body == nil || !fd.Name.IsExported() {
			continue
		}
		fn, _ := jp.TypesInfo.Defs[fd.Name].(*types.Func)
		if fn == nil {
			continue
		}
		sig := fn.Type().(*types.Signature)
		if !strings.HasSuffix(strings.TrimPrefix(sig.Recv().Type().String(), "*"), "go-json.Decoder") {
			continue
		}
		hasErr := false
		for i := 0; i < sig.Results().Len(); i++ {
			if sig.Results().At(i).Type().String() == "error" {
				hasErr = true
			}
		}
		if !hasErr {
			continue
		}
		n++
		name := p.FuncName(fd)
		rc.Touch(name)
		rc.Check(reach(fd, 0, map[*ast.FuncDecl]bool{}), name+"/reader-error-looked-at", fd.Pos(), "the method returns an error and reads from the stream: it (or the Decoder/Stream method it calls) has to look at Stream.readErr, or a reader failure reaches the caller as the end of the input (io.EOF, or a number cut off where the read failed)")
	}
	if n < 4 {
		rc.Unknown("json.Decoder/methods-with-error", token.NoPos, "found %d exported methods of Decoder that return an error (confirmed: 4)", n)
	}
}

// ---- C09.R19 the text captured for a callback begins at the value ----

// The stream functions that hand a value's text to UnmarshalJSON / UnmarshalText (or keep it) mark the start of the
// text, step over the value with skipValue and slice the window: s.buf[start:s.cursor]. skipValue skips white space in
// front of the value by itself, so the mark has to be taken behind that white space, and the only scanner that can see
// all of it is Stream.skipWhiteSpace, which refills the window at its end. A mark taken without it (or behind a loop
// over the bytes of the current window) leaves the white space in the text whenever it is there (or whenever a read
// boundary falls into it): the method receives `   {"a":1}` in stream mode and `{"a":1}` in buffer mode.
// Obligation: in every stream function that captures s.buf[start:…] behind s.skipValue, the statement in front of
// `start := s.cursor` is a call of s.skipWhiteSpace().
func c09r19(rc *core.RC) {
	p := rc.P
	pk := p.Pkg("decoder")
	if pk == nil {
		rc.Unknown("decoder", token.NoPos, "package not found")
		return
	}
	info := pk.TypesInfo
	n := 0
	for _, fd := range p.Funcs("decoder") {
		if fd.Body == nil {
			continue
		}
		name := p.FuncName(fd)
		// captures: s.buf[start:…] with start a local
		starts := map[types.Object]bool{}
		ast.Inspect(fd.Body, func(m ast.Node) bool {
			se, ok := m.(*ast.SliceExpr)
			if !ok || se.Low == nil {
				return true
			}
			if f := core.FieldOf(info, se.X); f == nil || f.Name() != "buf" {
				return true
			}
			if o, ok := core.ObjOf(info, se.Low).(*types.Var); ok && !o.IsField() {
				starts[o] = true
			}
			return true
		})
		if len(starts) == 0 {
			continue
		}
		// only functions that step over the value with skipValue
		skips := false
		ast.Inspect(fd.Body, func(m ast.Node) bool {
			if c, ok := m.(*ast.CallExpr); ok && core.CalleeName(info, c) == "decoder.Stream.skipValue" {
				skips = true
			}
			return true
		})
		if !skips {
			continue
		}
		k := 0
		var walk func(list []ast.Stmt)
		walk = func(list []ast.Stmt) {
			for i, st := range list {
				if as, ok := st.(*ast.AssignStmt); ok && len(as.Lhs) == 1 && len(as.Rhs) == 1 && starts[core.ObjOf(info, as.Lhs[0])] {
					if f := core.FieldOf(info, as.Rhs[0]); f != nil && f.Name() == "cursor" {
						k++
						n++
						rc.Touch(name)
						behind := false
						if i > 0 {
							if es, ok := list[i-1].(*ast.ExprStmt); ok {
								if c, ok := es.X.(*ast.CallExpr); ok && core.CalleeName(info, c) == "decoder.Stream.skipWhiteSpace" {
									behind = true
								}
							}
						}
						rc.Check(behind, fmt.Sprintf("%s/capture-start#%d behind-skipWhiteSpace", name, k), as.Pos(), "the start of the text that is captured behind skipValue is marked without s.skipWhiteSpace() directly in front: white space in front of the value (skipValue steps over it) becomes part of the text handed to the method in stream mode, and not in buffer mode")
					}
				}
				// nested statement lists
				ast.Inspect(st, func(m ast.Node) bool {
					switch b := m.(type) {
					case *ast.BlockStmt:
						if ast.Node(b) != ast.Node(st) {
							walk(b.List)
							return false
						}
					case *ast.CaseClause:
						walk(b.Body)
						return false
					}
					return true
				})
			}
		}
		walk(fd.Body.List)
	}
	if n < 4 {
		rc.Unknown("decoder/capture-starts", token.NoPos, "found %d marks of a captured text in stream functions that use skipValue (confirmed: 6)", n)
	}
}

// ---- C09.R20 the input offset changes only where a cursor moves ----

// Decoder.InputOffset is Stream.offset + Stream.cursor: the number of input bytes the decoder has passed. Valid
// relies on it (what lies behind it must be white space). Stream.offset is corrected where the window changes in
// front of the cursor: the window is moved forward (reset), an escape sequence shrinks to its character, an invalid
// byte grows to U+FFFD; each of these statement lists also sets a cursor. A change of the offset where no cursor
// moves (in readBuf, which gives up the bytes behind a NUL) lets the offset pass bytes nobody examined: Valid then
// takes `1` + NUL + garbage for a valid text.
func c09r20(rc *core.RC) {
	p := rc.P
	pk := p.Pkg("decoder")
	if pk == nil {
		rc.Unknown("decoder", token.NoPos, "package not found")
		return
	}
	info := pk.TypesInfo
	n := 0
	isOffset := func(e ast.Expr) bool {
		f := core.FieldOf(info, e)
		if f == nil || f.Name() != "offset" {
			return false
		}
		sel, ok := core.Unparen(e).(*ast.SelectorExpr)
		return ok && strings.HasSuffix(strings.TrimPrefix(info.TypeOf(sel.X).String(), "*"), "decoder.Stream")
	}
	for _, fd := range p.Funcs("decoder") {
		if fd.Body == nil {
			continue
		}
		name := p.FuncName(fd)
		k := 0
		var walk func(list []ast.Stmt)
		walk = func(list []ast.Stmt) {
			movesCursor := false
			var offs []ast.Stmt
			for _, st := range list {
				switch x := st.(type) {
				case *ast.AssignStmt:
					for _, l := range x.Lhs {
						if isOffset(l) {
							offs = append(offs, st)
						}
						if isCursorExpr(l) {
							movesCursor = true
						}
					}
				case *ast.IncDecStmt:
					if isOffset(x.X) {
						offs = append(offs, st)
					}
					if isCursorExpr(x.X) {
						movesCursor = true
					}
				}
				ast.Inspect(st, func(m ast.Node) bool {
					switch b := m.(type) {
					case *ast.BlockStmt:
						walk(b.List)
						return false
					case *ast.CaseClause:
						walk(b.Body)
						return false
					}
					return true
				})
			}
			for _, st := range offs {
				k++
				n++
				rc.Touch(name)
				rc.Check(movesCursor, fmt.Sprintf("%s/offset-change#%d beside-a-cursor-move", name, k), st.Pos(), "`%s` changes the input offset in a statement list that sets no cursor: InputOffset (offset + cursor) then counts bytes the decoder has not passed, and Valid, which accepts a text when only white space lies behind InputOffset, no longer sees them", core.Src(p.Fset, st))
			}
		}
		walk(fd.Body.List)
	}
	if n < 4 {
		rc.Unknown("decoder/offset-changes", token.NoPos, "found %d statements that change Stream.offset (confirmed: 5)", n)
	}
}

// ---- C09.R21 a loop over the window stays below what has been read ----

// Stream.length counts the bytes of the window that hold input: the last of them has the index length-1, and the
// byte at index length is the terminator. A loop that walks the window without refilling (a fast path that compares
// a literal in one go) has to know that its highest index lies below length. Comparing that index with the count by
// `>` instead of `>=` admits the index length itself: the literal's last byte is then compared with the terminator,
// and a valid `null` that ends exactly where the window ends is an error. Obligation, for every counting loop of a
// stream function whose body indexes Stream.buf at a linear form of the loop variable: a guard in front of the loop
// that leaves proves (linear forms) that the highest index is smaller than Stream.length.
func c09r21(rc *core.RC) {
	p := rc.P
	pk := p.Pkg("decoder")
	if pk == nil {
		rc.Unknown("decoder", token.NoPos, "package not found")
		return
	}
	info := pk.TypesInfo
	n := 0
	isWindow := func(e ast.Expr) bool {
		f := core.FieldOf(info, e)
		if f == nil || f.Name() != "buf" {
			return false
		}
		sel, ok := core.Unparen(e).(*ast.SelectorExpr)
		return ok && strings.HasSuffix(strings.TrimPrefix(info.TypeOf(sel.X).String(), "*"), "decoder.Stream")
	}
	for _, fd := range p.Funcs("decoder") {
		if fd.Body == nil {
			continue
		}
		name := p.FuncName(fd)
		le := &core.LinearEval{Info: info, Pkg: pk, Body: fd.Body}
		k := 0
		ast.Inspect(fd.Body, func(m ast.Node) bool {
			loop, ok := m.(*ast.ForStmt)
			if !ok || loop.Init == nil || loop.Cond == nil || loop.Post == nil {
				return true
			}
			init, ok := loop.Init.(*ast.AssignStmt)
			if !ok || len(init.Lhs) != 1 {
				return true
			}
			ivar, ok := init.Lhs[0].(*ast.Ident)
			if !ok {
				return true
			}
			cond, ok := core.Unparen(loop.Cond).(*ast.BinaryExpr)
			if !ok || (cond.Op != token.LEQ && cond.Op != token.LSS) || core.ObjOf(info, cond.X) != core.ObjOf(info, ivar) {
				return true
			}
			// a refill inside the loop makes it a different kind of loop
			refills := false
			ast.Inspect(loop.Body, func(x ast.Node) bool {
				if c, ok := x.(*ast.CallExpr); ok {
					switch cn := core.CalleeName(info, c); {
					case cn == "decoder.Stream.char", cn == "decoder.Stream.totalOffset", cn == "decoder.Stream.stat", cn == "decoder.Stream.bufptr", cn == "decoder.Stream.statForRetry":
						// look at the stream, do not read from the reader
					case strings.HasPrefix(cn, "decoder.Stream."), cn == "decoder.readAtLeast", strings.HasPrefix(cn, "decoder.retryRead"):
						refills = true
					}
				}
				return true
			})
			if refills {
				return true
			}
			hi := le.Eval(cond.Y)
			if cond.Op == token.LSS {
				hi = hi.Sub(core.LinConst(1))
			}
			var idx core.Linear
			var win string
			ast.Inspect(loop.Body, func(x ast.Node) bool {
				ix, ok := x.(*ast.IndexExpr)
				if !ok || idx.OK || !isWindow(ix.X) {
					return true
				}
				l := le.Eval(ix.Index)
				if l.OK && l.Terms[ivar.Name] == 1 {
					idx = l
					win = types.ExprString(core.Unparen(ix.X))
				}
				return true
			})
			if !idx.OK || !hi.OK {
				return true
			}
			k++
			n++
			rc.Touch(name)
			// the highest index: the loop variable replaced by its upper bound
			max := idx.Sub(core.Linear{Terms: map[string]int64{ivar.Name: 1}, OK: true}).Add(hi)
			lengthAtom := strings.TrimSuffix(win, ".buf") + ".length"
			proved, seen := false, ""
			// the bound of the loop itself may say it: the highest index is length-1 or len(buf)-1 (or lower)
			for _, top := range []string{lengthAtom, "len(" + win + ")"} {
				d := max.Sub(core.Linear{Terms: map[string]int64{top: 1}, OK: true})
				if d.OK && len(nonzeroTerms(d)) == 0 && d.Const <= -1 {
					proved = true
				}
			}
			for _, st := range fd.Body.List {
				if st.Pos() > loop.Pos() {
					break
				}
				ifs, ok := st.(*ast.IfStmt)
				if !ok || len(ifs.Body.List) == 0 {
					continue
				}
				if _, isRet := ifs.Body.List[len(ifs.Body.List)-1].(*ast.ReturnStmt); !isRet {
					continue
				}
				be, ok := core.Unparen(ifs.Cond).(*ast.BinaryExpr)
				if !ok {
					continue
				}
				l, r := le.Eval(be.X), le.Eval(be.Y)
				if !l.OK || !r.OK || !(r.Terms[lengthAtom] == 1 && len(nonzeroTerms(r)) == 1 && r.Const == 0) {
					continue
				}
				d := max.Sub(l)
				if !d.OK || len(nonzeroTerms(d)) != 0 {
					continue
				}
				seen = core.Src(p.Fset, ifs.Cond)
				// leaving on l >= length leaves l < length; leaving on l > length leaves l <= length
				if (be.Op == token.GEQ && d.Const <= 0) || (be.Op == token.GTR && d.Const <= -1) {
					proved = true
				}
			}
			why := "no guard in front of the loop compares it with " + lengthAtom
			if seen != "" {
				why = "the guard `" + seen + "` admits the index " + lengthAtom + " itself, where the terminator stands"
			}
			rc.Check(proved, fmt.Sprintf("%s/window-loop#%d highest-index-below-length", name, k), loop.Pos(), "the loop reads %s up to the index %s without a refill: %s (the last byte of what has been read has the index length-1; a literal that ends exactly with the window is compared with the NUL behind it)", win, max, why)
			return true
		})
	}
	rc.OK("decoder/window-loops", token.NoPos, "%d counting loops over the stream window without a refill, each bounded below Stream.length", n)
}

// ---- C09.R22 a container decoder counts its own level before it looks at the input ----

// The struct, map, slice, array and interface decoders refuse a document nested deeper than maxDecodeNestingDepth:
// each Decode / DecodeStream / DecodePath method that raises its depth parameter does so, and tests the limit, as
// the first two statements of its body. An exit in front of the count (the empty object, null) lets the stream
// method accept a document at the limit that the buffer method of the same type refuses. Obligation, for every such
// method: `depth++` is the first statement and the second is the test against the limit that leaves with an error.
func c09r22(rc *core.RC) {
	p := rc.P
	n := 0
	for _, fd := range p.Funcs("decoder") {
		if fd.Body == nil || fd.Recv == nil {
			continue
		}
		switch fd.Name.Name {
		case "Decode", "DecodeStream", "DecodePath":
		default:
			continue
		}
		info := p.Info(fd)
		var inc *ast.IncDecStmt
		ast.Inspect(fd.Body, func(m ast.Node) bool {
			if _, isLit := m.(*ast.FuncLit); isLit {
				return false
			}
			if x, ok := m.(*ast.IncDecStmt); ok && x.Tok == token.INC && inc == nil {
				if o := core.ObjOf(info, x.X); o != nil && isParamOf(info, fd, o) {
					if b, isB := o.Type().Underlying().(*types.Basic); isB && b.Kind() == types.Int64 {
						inc = x
					}
				}
			}
			return true
		})
		if inc == nil {
			continue
		}
		n++
		rc.Touch(p.FuncName(fd))
		key := p.FuncName(fd) + "/level-counted-first"
		// in front of the count only plain assignments (buf := ctx.Buf): nothing that can leave
		first := false
		at := -1
		for i, st := range fd.Body.List {
			if st == ast.Stmt(inc) {
				first, at = true, i
				break
			}
			if _, isAs := st.(*ast.AssignStmt); !isAs {
				break
			}
		}
		tested := false
		if first && len(fd.Body.List) > at+1 {
			if ifs, ok := fd.Body.List[at+1].(*ast.IfStmt); ok && len(ifs.Body.List) > 0 {
				mentions := false
				ast.Inspect(ifs.Cond, func(q ast.Node) bool {
					if id, isID := q.(*ast.Ident); isID && info.Uses[id] == core.ObjOf(info, inc.X) {
						mentions = true
					}
					return true
				})
				if r, isRet := ifs.Body.List[len(ifs.Body.List)-1].(*ast.ReturnStmt); isRet && mentions && core.ReturnIsError(info, r) {
					tested = true
				}
			}
		}
		switch {
		case first && tested:
			rc.OK(key, inc.Pos(), "the level is counted and tested before anything else")
		case !first:
			rc.Bad(key, inc.Pos(), "the level is counted behind other statements of %s: an exit in front of it (the empty object, null) is taken without the test against the nesting limit, so this method accepts a document at the limit that its twin of the other mode refuses", p.FuncName(fd))
		default:
			rc.Bad(key, inc.Pos(), "the statement behind the count is not the test against the nesting limit that leaves with an error")
		}
	}
	if n < 10 {
		rc.Unknown("decoder/methods-that-count-their-level", token.NoPos, "found %d Decode / DecodeStream / DecodePath methods that raise their depth parameter, fewer than the 10 confirmed by hand", n)
	}
}

func isParamOf(info *types.Info, fd *ast.FuncDecl, o types.Object) bool {
	if fd.Type.Params == nil {
		return false
	}
	for _, fl := range fd.Type.Params.List {
		for _, nm := range fl.Names {
			if info.Defs[nm] == o {
				return true
			}
		}
	}
	return false
}

// ---- C09.R23 a refill that succeeded is a reason to look again, whatever it delivered ----

// Stream.read reports false only when the reader is exhausted or failed; a reader may deliver nothing and no error
// (a zero-length write into a pipe), and read then reports true with an unchanged window. Every scanner goes round
// again after a true answer. A condition that also wants the window to have grown (`s.read() && s.cursor < s.length`)
// takes such an empty read for the end of the input: Decode returns io.EOF and More false with input still to come.
// Obligation: no condition of the decoder package joins a call of (*Stream).read with a comparison of the cursor and
// the length by &&.
func c09r23(rc *core.RC) {
	p := rc.P
	n, plain := 0, 0
	for _, fd := range p.Funcs("decoder") {
		if fd.Body == nil {
			continue
		}
		info := p.Info(fd)
		k := 0
		ast.Inspect(fd.Body, func(m ast.Node) bool {
			var cond ast.Expr
			switch x := m.(type) {
			case *ast.IfStmt:
				cond = x.Cond
			case *ast.ForStmt:
				cond = x.Cond
			}
			if cond == nil {
				return true
			}
			cs := conjuncts(cond)
			hasRead, hasCmp := false, false
			for _, c := range cs {
				inner, _ := stripNot(c)
				if call, ok := core.Unparen(inner).(*ast.CallExpr); ok && strings.HasSuffix(core.CalleeName(info, call), "Stream.read") {
					hasRead = true
				}
				if be, ok := core.Unparen(c).(*ast.BinaryExpr); ok {
					l, r := core.FieldOf(info, be.X), core.FieldOf(info, be.Y)
					if l != nil && r != nil && ((l.Name() == "cursor" && r.Name() == "length") || (l.Name() == "length" && r.Name() == "cursor")) {
						hasCmp = true
					}
				}
			}
			if !hasRead {
				return true
			}
			plain++
			if len(cs) > 1 && hasCmp {
				n++
				k++
				rc.Touch(p.FuncName(fd))
				rc.Bad(fmt.Sprintf("%s/refill#%d also-wants-the-window-to-have-grown", p.FuncName(fd), k), cond.Pos(), "the condition %s takes a refill that succeeded and delivered nothing (a reader may return 0, nil) for the end of the input: Decode answers io.EOF and More false while input is still to come, where Unmarshal accepts the same bytes", core.Src(p.Fset, cond))
			}
			return true
		})
	}
	if plain < 20 {
		rc.Unknown("decoder/refill-conditions", token.NoPos, "found %d conditions that call (*Stream).read, fewer than the 20 confirmed by hand", plain)
	} else if n == 0 {
		rc.OK("decoder/refill-conditions-look-at-the-answer-only", token.NoPos, "%d conditions call (*Stream).read; none also compares the cursor with the length", plain)
	}
}
