package rules

import (
	"fmt"
	"go/ast"
	"go/token"
	"go/types"
	"strings"

	"golang.org/x/tools/go/ssa"

	"verif/checker/core"
)

func isBuiltinCall(ins ssa.Instruction, name string) (*ssa.Call, bool) {
	c, ok := ins.(*ssa.Call)
	if !ok {
		return nil, false
	}
	b, ok := c.Call.Value.(*ssa.Builtin)
	return c, ok && b.Name() == name
}

// ---- C12.R1 caller bytes only feed the private copy ----

func c12r1(rc *core.RC) {
	for _, name := range []string{"unmarshal", "unmarshalContext", "unmarshalNoEscape", "extractFromPath"} {
		fn := rc.P.SSAFunc("json", name)
		if fn == nil {
			rc.Unknown("json."+name, token.NoPos, "entry point not found")
			continue
		}
		rc.Touch("json." + name)
		var data *ssa.Parameter
		for _, p := range fn.Params {
			if p.Type().String() == "[]byte" {
				data = p
			}
		}
		if data == nil {
			rc.Unknown("json."+name+"/data", fn.Pos(), "no []byte parameter")
			continue
		}
		// every transitive use of data (through slicing/conversion/phi), followed into module
		// helpers that receive it (two levels): a helper may take the length and copy from it,
		// and if it returns (a slice of) its argument the result is the caller's memory again
		seen := map[ssa.Value]bool{}
		var visit func(v ssa.Value, depth int, retTaint *bool)
		copied := false
		visit = func(v ssa.Value, depth int, retTaint *bool) {
			if seen[v] {
				return
			}
			seen[v] = true
			for _, r := range *v.Referrers() {
				key := fmt.Sprintf("json.%s/use-of-data", name)
				switch x := r.(type) {
				case *ssa.DebugRef:
				case *ssa.Slice:
					visit(x, depth, retTaint)
				case *ssa.Phi:
					visit(x, depth, retTaint)
				case *ssa.ChangeType:
					visit(x, depth, retTaint)
				case *ssa.Call:
					if _, ok := isBuiltinCall(x, "len"); ok {
						rc.OK(key+"/len", core.SSAPos(x), "length only")
						continue
					}
					if _, ok := isBuiltinCall(x, "cap"); ok {
						rc.OK(key+"/cap", core.SSAPos(x), "capacity only")
						continue
					}
					if c, ok := isBuiltinCall(x, "copy"); ok {
						if len(c.Call.Args) == 2 && c.Call.Args[1] == v && c.Call.Args[0] != v {
							copied = true
							rc.OK(key+"/copy-src", core.SSAPos(x), "source operand of copy into the private buffer")
							continue
						}
						rc.Bad(key+"/copy-dst", core.SSAPos(x), "the caller's input is the destination of a copy: Unmarshal writes to its input")
						continue
					}
					if callee := x.Call.StaticCallee(); callee != nil && callee.Blocks != nil && depth < 2 && callee.Pkg != nil && strings.HasPrefix(callee.Pkg.Pkg.Path(), core.ModPath) {
						followed := false
						for i, a := range x.Call.Args {
							if a == v && i < len(callee.Params) {
								followed = true
								rt := false
								visit(callee.Params[i], depth+1, &rt)
								if rt {
									// the helper hands its argument back: the result is still the caller's memory
									visit(x, depth, retTaint)
								}
							}
						}
						if followed {
							continue
						}
					}
					rc.Bad(key+"/call", core.SSAPos(x), "the caller's input bytes are passed to %s: decoding may retain or modify them", describeCall(x.Common()))
				case *ssa.Store:
					if name == "extractFromPath" && depth == 0 {
						rc.Note(key+"/returned-as-is", core.SSAPos(x), "the root-selector shortcut returns the input slice itself (Extract is outside C12's wording)")
						continue
					}
					rc.Bad(key+"/store", core.SSAPos(x), "the caller's input slice is stored (%s): library state aliases caller memory", x.Addr.String())
				case *ssa.Return:
					if depth > 0 && retTaint != nil {
						*retTaint = true
						continue
					}
					rc.Bad(key+"/return", core.SSAPos(x), "the caller's input slice is returned")
				case *ssa.IndexAddr:
					// element address: reads are fine, writes are not
					for _, rr := range *x.Referrers() {
						if st, ok := rr.(*ssa.Store); ok && st.Addr == x {
							rc.Bad(key+"/element-store", core.SSAPos(st), "a byte of the caller's input is overwritten")
						}
					}
				default:
					rc.Bad(key+"/other", core.SSAPos(r), "the caller's input flows into %T", r)
				}
			}
		}
		visit(data, 0, nil)
		rc.Check(copied, "json."+name+"/private-copy", fn.Pos(), "the input is copied into a buffer the decoder owns")
	}
}

func describeCall(c *ssa.CallCommon) string {
	if c.IsInvoke() {
		return "method " + c.Method.Name()
	}
	if f := c.StaticCallee(); f != nil {
		return core.SSAName(f)
	}
	return c.Value.String()
}

// ---- C12.R2 returned encodings are fresh ----

func c12r2(rc *core.RC) {
	for _, name := range []string{"marshal", "marshalContext", "marshalNoEscape", "marshalIndent"} {
		fn := rc.P.SSAFunc("json", name)
		if fn == nil {
			rc.Unknown("json."+name, token.NoPos, "entry point not found")
			continue
		}
		rc.Touch("json." + name)
		var release []*ssa.Call
		var copies []*ssa.Call
		for _, b := range fn.Blocks {
			for _, ins := range b.Instrs {
				if c, ok := ins.(*ssa.Call); ok {
					if core.StaticCalleeName(c.Common()) == "encoder.ReleaseRuntimeContext" {
						release = append(release, c)
					}
					if _, ok := isBuiltinCall(c, "copy"); ok {
						copies = append(copies, c)
					}
				}
			}
		}
		for _, b := range fn.Blocks {
			for _, ins := range b.Instrs {
				r, ok := ins.(*ssa.Return)
				if !ok || len(r.Results) == 0 {
					continue
				}
				v := r.Results[0]
				key := fmt.Sprintf("json.%s/returned-slice", name)
				if c, ok := v.(*ssa.Const); ok && c.IsNil() {
					rc.OK(key+"/nil", core.SSAPos(r), "error path returns nil")
					continue
				}
				mk, ok := v.(*ssa.MakeSlice)
				if !ok {
					rc.Bad(key, core.SSAPos(r), "the returned []byte is %s, not a freshly made slice: the caller's result aliases the pooled encoder buffer and is overwritten by later calls", v.String())
					continue
				}
				// filled by copy(mk, <encoder buffer>) that happens before the context is released
				var cp *ssa.Call
				for _, c := range copies {
					if c.Call.Args[0] == mk {
						cp = c
					}
				}
				if cp == nil {
					rc.Bad(key, core.SSAPos(r), "the returned slice is made but never filled by copy")
					continue
				}
				order := true
				for _, rel := range release {
					// a release that can reach the return must come after the copy
					if rel.Block() == cp.Block() {
						if indexIn(rel) < indexIn(cp) {
							order = false
						}
					} else if rel.Block().Dominates(cp.Block()) {
						order = false
					}
				}
				rc.Check(order, key, core.SSAPos(r), "fresh make+copy, and the copy happens before the pooled context is released")
			}
		}
	}
}

func indexIn(ins ssa.Instruction) int {
	for i, x := range ins.Block().Instrs {
		if x == ins {
			return i
		}
	}
	return -1
}

// ---- C12.R3 stream callbacks get copies; R4 in-place rewriting stays in library memory ----

func freshOnly(os []core.Origin) (bool, string) {
	var bad []string
	for _, o := range os {
		switch o.Kind {
		case "make", "alloc", "const":
		default:
			bad = append(bad, o.String())
		}
	}
	return len(bad) == 0, strings.Join(bad, ", ")
}

func c12r3(rc *core.RC) {
	p := rc.P
	of := core.NewOriginFinder(p)
	n := 0
	for _, fn := range p.ModuleFuncs() {
		if fn.Pkg == nil || fn.Pkg.Pkg.Path() != core.PkgPaths["decoder"] {
			continue
		}
		stream := false
		for _, prm := range fn.Params {
			if strings.HasSuffix(prm.Type().String(), "decoder.Stream") {
				stream = true
			}
		}
		for _, b := range fn.Blocks {
			for _, ins := range b.Instrs {
				c, ok := ins.(*ssa.Call)
				if !ok || !c.Call.IsInvoke() {
					continue
				}
				m := c.Call.Method.Name()
				if m != "UnmarshalJSON" && m != "UnmarshalText" {
					continue
				}
				var arg ssa.Value
				for _, a := range c.Call.Args {
					if a.Type().String() == "[]byte" {
						arg = a
					}
				}
				if arg == nil {
					continue
				}
				n++
				rc.CallSites++
				rc.Touch(core.SSAName(fn))
				key := fmt.Sprintf("%s/%s-arg", core.SSAName(fn), m)
				ok2, bad := freshOnly(of.Origins(arg))
				switch {
				case ok2:
					rc.OK(key, core.SSAPos(c), "bytes handed to the callback are a fresh copy")
				case stream:
					rc.Bad(key, core.SSAPos(c), "in stream mode the bytes handed to %s derive from %s: the window is reused by later reads, so what the callback keeps is overwritten", m, bad)
				case m == "UnmarshalJSON":
					rc.Bad(key, core.SSAPos(c), "the bytes handed to UnmarshalJSON derive from %s: a window of the private input copy whose capacity reaches to the end of the document, so an append inside the method (or later, through a slice it kept) overwrites text Unmarshal still has to decode and strings it has already decoded; every other site hands over a fresh copy", bad)
				default:
					rc.Note(key, core.SSAPos(c), "buffer mode passes bytes derived from %s (the per-call private copy)", bad)
				}
			}
		}
	}
	if n < 8 {
		rc.Unknown("decoder/unmarshaler-callbacks", token.NoPos, "found %d UnmarshalJSON/UnmarshalText call sites, confirmed by hand: 12", n)
	}
}

func c12r4(rc *core.RC) {
	p := rc.P
	of := core.NewOriginFinder(p)
	lib := func(o core.Origin) bool {
		switch o.Kind {
		case "make", "alloc", "const":
			return true
		case "field":
			return o.Name == "RuntimeContext.Buf" || o.Name == "Stream.buf"
		case "global":
			return true // package-level constants such as numZeroBuf are library memory (see C11.R5 for their mutability)
		}
		return false
	}
	n := 0
	for _, fn := range p.ModuleFuncs() {
		if fn.Pkg == nil || fn.Pkg.Pkg.Path() != core.PkgPaths["decoder"] {
			continue
		}
		for _, b := range fn.Blocks {
			for _, ins := range b.Instrs {
				c, ok := ins.(*ssa.Call)
				if !ok {
					continue
				}
				if core.StaticCalleeName(c.Common()) != "decoder.unescapeString" {
					continue
				}
				n++
				rc.CallSites++
				rc.Touch(core.SSAName(fn))
				key := core.SSAName(fn) + "/unescapeString-operand"
				var bad []string
				for _, o := range of.Origins(c.Call.Args[0]) {
					if !lib(o) {
						bad = append(bad, o.String())
					}
				}
				if len(bad) == 0 {
					rc.OK(key, core.SSAPos(c), "rewritten in place inside memory the library owns")
				} else {
					rc.Bad(key, core.SSAPos(c), "unescapeString rewrites its operand in place, and the operand can derive from %s", strings.Join(bad, ", "))
				}
			}
		}
	}
	if n < 1 {
		rc.Unknown("decoder/unescapeString-calls", token.NoPos, "no call of unescapeString found")
	}
	// the decoder's working buffer is only ever set to a slice the library made
	for _, name := range []string{"unmarshal", "unmarshalContext", "unmarshalNoEscape", "extractFromPath"} {
		fn := p.SSAFunc("json", name)
		if fn == nil {
			continue
		}
		for _, b := range fn.Blocks {
			for _, ins := range b.Instrs {
				st, ok := ins.(*ssa.Store)
				if !ok {
					continue
				}
				fa, ok := st.Addr.(*ssa.FieldAddr)
				if !ok {
					continue
				}
				if fname := fieldNameOfSSA(fa); fname != "RuntimeContext.Buf" {
					continue
				}
				ok2, bad := freshOnly(of.Origins(st.Val))
				rc.Check(ok2, "json."+name+"/ctx.Buf", core.SSAPos(st), "the decoder's working buffer is a slice made in this call (%s)", bad)
			}
		}
	}
}

func fieldNameOfSSA(fa *ssa.FieldAddr) string { return core.FieldNameOf(fa) }

// ---- C12.R5 the stream window only moves forward or to a fresh allocation ----

// Strings and keys decoded in stream mode may alias the window's memory (zero-copy). Earlier
// results stay intact because the window is only ever re-sliced forward (s.buf = s.buf[k:]) or
// replaced by a new allocation. Any other value assigned to Stream.buf (a kept reference to the
// start of the allocation, a pooled slice) lets a later read overwrite bytes that earlier
// results still point at.
func c12r5(rc *core.RC) {
	p := rc.P
	pk := p.Pkg("decoder")
	n := 0
	check := func(fn string, info *types.Info, body *ast.BlockStmt, rhs ast.Expr, pos token.Pos, seq int) {
		n++
		key := fmt.Sprintf("%s/window-assign#%d", fn, seq)
		rhs = core.Unparen(rhs)
		// follow a local with a single definition
		if id, ok := rhs.(*ast.Ident); ok {
			if v, ok := info.Uses[id].(*types.Var); ok && body != nil {
				le := &core.LinearEval{Info: info, Body: body}
				_ = le
				var def ast.Expr
				k := 0
				ast.Inspect(body, func(m ast.Node) bool {
					if as, ok := m.(*ast.AssignStmt); ok {
						for i, l := range as.Lhs {
							if core.ObjOf(info, l) == v && i < len(as.Rhs) {
								k++
								def = as.Rhs[i]
							}
						}
					}
					return true
				})
				if k == 1 && def != nil {
					rhs = core.Unparen(def)
				}
			}
		}
		// append(append(base, …), …): what the innermost base is
		base := rhs
		for {
			c, ok := core.Unparen(base).(*ast.CallExpr)
			if !ok || !core.IsBuiltin(info, c, "append") || len(c.Args) == 0 {
				break
			}
			base = c.Args[0]
		}
		if base != rhs {
			switch b := core.Unparen(base).(type) {
			case *ast.CompositeLit:
				rc.OK(key, pos, "a fresh copy (append onto a new slice)")
				return
			case *ast.SliceExpr:
				if f := core.FieldOf(info, b.X); f != nil && f.Name() == "buf" && b.Low == nil && b.High != nil {
					rc.OK(key, pos, "an in-place splice that keeps the window's prefix `%s` and rewrites only the token being decoded", core.Src(p.Fset, b))
					return
				}
			}
		}
		switch x := rhs.(type) {
		case *ast.CallExpr:
			if core.IsBuiltin(info, x, "make") {
				rc.OK(key, pos, "a fresh allocation")
				return
			}
		case *ast.SliceExpr:
			if f := core.FieldOf(info, x.X); f != nil && f.Name() == "buf" && x.Low != nil {
				rc.OK(key, pos, "the window is re-sliced forward")
				return
			}
		}
		rc.Bad(key, pos, "Stream.buf receives `%s`: neither a fresh allocation nor a forward re-slice of the window. Memory in front of the window is still referenced by strings decoded earlier (zero-copy); moving the window back onto it lets the next read overwrite them", core.Src(p.Fset, rhs))
	}
	for _, fd := range p.Funcs("decoder") {
		if fd.Body == nil {
			continue
		}
		info := p.Info(fd)
		fn := p.FuncName(fd)
		seq := 0
		ast.Inspect(fd.Body, func(m ast.Node) bool {
			switch x := m.(type) {
			case *ast.AssignStmt:
				for i, l := range x.Lhs {
					f := core.FieldOf(info, l)
					if f == nil || f.Name() != "buf" || i >= len(x.Rhs) {
						continue
					}
					if recv, ok := f.Pkg().Scope().Lookup("Stream").(*types.TypeName); !ok || !fieldOfType(recv, f) {
						continue
					}
					seq++
					rc.Touch(fn)
					check(fn, info, fd.Body, x.Rhs[i], x.Pos(), seq)
				}
			case *ast.CompositeLit:
				tv := info.Types[x]
				if nt, ok := tv.Type.(*types.Named); ok && nt.Obj().Name() == "Stream" && nt.Obj().Pkg() == pk.Types {
					for _, el := range x.Elts {
						if kv, ok := el.(*ast.KeyValueExpr); ok {
							if id, ok := kv.Key.(*ast.Ident); ok && id.Name == "buf" {
								seq++
								rc.Touch(fn)
								check(fn, info, fd.Body, kv.Value, kv.Pos(), seq)
							}
						}
					}
				}
			}
			return true
		})
	}
	if n < 3 {
		rc.Unknown("decoder/stream-window-assignments", token.NoPos, "found %d assignments of Stream.buf (NewStream, readBuf ×2 expected)", n)
	}
}

func fieldOfType(tn *types.TypeName, f *types.Var) bool {
	st, ok := tn.Type().Underlying().(*types.Struct)
	if !ok {
		return false
	}
	for i := 0; i < st.NumFields(); i++ {
		if st.Field(i) == f {
			return true
		}
	}
	return false
}

// ---- C12.R6 the slice decoder's pooled working array never is the destination's array ----

// The slice decoder works in an array it owns (taken from, and returned to, a sync.Pool) and copies
// the result into the destination at the end. The destination header is the *sliceHeader made from p
// (in Decode/DecodeStream) or received by newSlice. Its data pointer may be compared and overwritten,
// and the header may be the source or target of copySlice, but it must never flow into a working
// header: that header goes back to the pool, and the next decode would write into the caller's slice.
func c12r6(rc *core.RC) {
	p := rc.P
	n := 0
	for _, fd := range p.Funcs("decoder") {
		if fd.Body == nil || fd.Recv == nil {
			continue
		}
		info := p.Info(fd)
		recv := ""
		if len(fd.Recv.List) > 0 {
			recv = types.ExprString(fd.Recv.List[0].Type)
		}
		if recv != "*sliceDecoder" {
			continue
		}
		fn := p.FuncName(fd)
		dest := map[types.Object]bool{}
		// *sliceHeader parameters
		for _, f := range fd.Type.Params.List {
			for _, nm := range f.Names {
				if o := info.Defs[nm]; o != nil && strings.HasSuffix(o.Type().String(), "decoder.sliceHeader") && strings.HasPrefix(o.Type().String(), "*") {
					dest[o] = true
				}
			}
		}
		// x := (*sliceHeader)(p)
		var pobj types.Object
		for _, f := range fd.Type.Params.List {
			for _, nm := range f.Names {
				if o := info.Defs[nm]; o != nil && o.Type().String() == "unsafe.Pointer" {
					pobj = o
				}
			}
		}
		isDestExpr := func(e ast.Expr) bool {
			e = core.Unparen(e)
			if o := core.ObjOf(info, e); o != nil && dest[o] {
				return true
			}
			if c, ok := e.(*ast.CallExpr); ok && len(c.Args) == 1 && pobj != nil && core.ObjOf(info, c.Args[0]) == pobj {
				if tv, ok := info.Types[c.Fun]; ok && tv.IsType() && strings.HasSuffix(tv.Type.String(), "decoder.sliceHeader") {
					return true
				}
			}
			return false
		}
		ast.Inspect(fd.Body, func(m ast.Node) bool {
			if as, ok := m.(*ast.AssignStmt); ok && len(as.Lhs) == len(as.Rhs) {
				for i, r := range as.Rhs {
					if isDestExpr(r) {
						if o := core.ObjOf(info, as.Lhs[i]); o != nil {
							dest[o] = true
						}
					}
				}
			}
			return true
		})
		if len(dest) == 0 && pobj == nil {
			continue
		}
		rc.Touch(fn)
		// uses of <dest>.data as a value
		var stack []ast.Node
		ast.Inspect(fd.Body, func(m ast.Node) bool {
			if m == nil {
				stack = stack[:len(stack)-1]
				return true
			}
			stack = append(stack, m)
			sel, ok := m.(*ast.SelectorExpr)
			if !ok || sel.Sel.Name != "data" || !isDestExpr(sel.X) {
				return true
			}
			n++
			parent := stack[len(stack)-2]
			key := fmt.Sprintf("%s/destination-array-use#%d", fn, n)
			switch par := parent.(type) {
			case *ast.BinaryExpr:
				if par.Op == token.EQL || par.Op == token.NEQ {
					rc.OK(key, sel.Pos(), "compared only")
					return true
				}
			case *ast.AssignStmt:
				for _, l := range par.Lhs {
					if l == ast.Expr(sel) {
						rc.OK(key, sel.Pos(), "the destination's data pointer is overwritten")
						return true
					}
				}
			}
			rc.Bad(key, sel.Pos(), "the destination's array (`%s`) is used as a value in `%s`: if it becomes the data of a working header it is returned to the decoder's pool, and a later decode writes into the caller's slice", core.Src(p.Fset, sel), core.Src(p.Fset, parent))
			return true
		})
	}
	if n < 4 {
		rc.Unknown("decoder/sliceDecoder-destination-uses", token.NoPos, "found %d uses of the destination header's data field in sliceDecoder methods", n)
	}
}

// ---- C12.R7 the decoder's context buffer is never recycled ----

// Strings, json.Numbers and keys decoded in buffer mode are views of ctx.Buf (zero copy), and the
// context goes back to the pool with that buffer still attached. Unlike the encoder's context
// buffer it must therefore never be reused as scratch: no `x.Buf[:n]` of a decoder RuntimeContext
// may be the base of an append or the destination of a copy.
func c12r7(rc *core.RC) {
	p := rc.P
	n, sites := 0, 0
	isDecBuf := func(info *types.Info, e ast.Expr) bool {
		f := core.FieldOf(info, e)
		if f == nil || f.Name() != "Buf" || f.Pkg() == nil || f.Pkg().Path() != core.PkgPaths["decoder"] {
			return false
		}
		sel := core.Unparen(e).(*ast.SelectorExpr)
		tv := info.Types[sel.X]
		return tv.Type != nil && strings.HasSuffix(strings.TrimPrefix(tv.Type.String(), "*"), "decoder.RuntimeContext")
	}
	for _, short := range []string{"decoder", "json"} {
		for _, fd := range p.Funcs(short) {
			if fd.Body == nil {
				continue
			}
			info := p.Info(fd)
			fn := p.FuncName(fd)
			k := 0
			ast.Inspect(fd.Body, func(m ast.Node) bool {
				switch x := m.(type) {
				case *ast.SelectorExpr:
					if isDecBuf(info, x) {
						sites++
					}
				case *ast.CallExpr:
					isAppend, isCopy := core.IsBuiltin(info, x, "append"), core.IsBuiltin(info, x, "copy")
					if (!isAppend && !isCopy) || len(x.Args) == 0 {
						return true
					}
					base := core.Unparen(x.Args[0])
					if sl, ok := base.(*ast.SliceExpr); ok {
						base = core.Unparen(sl.X)
					}
					if !isDecBuf(info, base) {
						return true
					}
					n++
					k++
					rc.Touch(fn)
					rc.Bad(fmt.Sprintf("%s/context-buffer-recycled#%d", fn, k), x.Pos(), "`%s` writes into the buffer a pooled decoder context brought along: results of earlier Unmarshal calls (strings, json.Numbers, map keys) are views of that buffer and change under their owners", core.Clip(core.Src(p.Fset, x), 80))
				}
				return true
			})
		}
	}
	if sites < 10 {
		rc.Unknown("decoder/context-buffer-uses", token.NoPos, "found %d uses of the decoder context's Buf", sites)
		return
	}
	if n == 0 {
		rc.OK("decoder/context-buffer-never-recycled", token.NoPos, "%d uses of the decoder context's Buf examined: none is the base of an append or the destination of a copy", sites)
	}
}

// ---- C12.R8 a []byte destination receives memory of its own ----

// Strings the decoder hands out may point into the call's private copy of the input: they are immutable. A []byte is
// not: the caller may write to it and append within its capacity. Every slice stored into a []byte destination
// (`*(*[]byte)(p) = x` in a decoder method) must therefore be freshly made (or nil), never a view of the private input
// copy or of the stream window, where the other values decoded from the same document live.
func c12r8(rc *core.RC) {
	p := rc.P
	of := core.NewOriginFinder(p)
	n := 0
	for _, fn := range p.ModuleFuncs() {
		if fn.Pkg == nil || fn.Pkg.Pkg.Path() != core.PkgPaths["decoder"] {
			continue
		}
		k := 0
		for _, b := range fn.Blocks {
			for _, ins := range b.Instrs {
				st, ok := ins.(*ssa.Store)
				if !ok {
					continue
				}
				pt, isPtr := st.Addr.Type().Underlying().(*types.Pointer)
				if !isPtr {
					continue
				}
				sl, isSlice := pt.Elem().Underlying().(*types.Slice)
				if !isSlice {
					continue
				}
				if bt, isBasic := sl.Elem().Underlying().(*types.Basic); !isBasic || bt.Kind() != types.Uint8 {
					continue
				}
				// the address is an unsafe.Pointer converted to *[]byte: a destination of unknown provenance
				cv, isConv := st.Addr.(*ssa.Convert)
				if !isConv || cv.X.Type().String() != "unsafe.Pointer" {
					continue
				}
				n++
				k++
				rc.Touch(core.SSAName(fn))
				key := fmt.Sprintf("%s/store-to-[]byte-destination#%d fresh-memory", core.SSAName(fn), k)
				fresh, bad := freshOnly(of.Origins(st.Val))
				rc.Check(fresh, key, core.SSAPos(st), "the slice stored into the []byte destination is freshly made or nil%s", func() string {
					if fresh {
						return ""
					}
					return " — it derives from " + bad + ": the caller's []byte is a writable view (with spare capacity) of the buffer that also holds the strings, keys and other values decoded from the same document"
				}())
			}
		}
	}
	if n < 4 {
		rc.Unknown("decoder/[]byte-destination-stores", token.NoPos, "found %d stores to a []byte destination (confirmed: 4 in bytesDecoder)", n)
	}
}

// ---- C12.R9 the input of Compact, Indent, HTMLEscape and Valid is read-only ----

// The caller's src may be a window into a larger buffer that other goroutines read, with live data behind its end.
// The scanners need a NUL behind the text; the library gets it by copying src into a pooled buffer. Writing the NUL
// into the array of src "for the duration of the scan" (src[:len+1], store, restore) races with every other user of
// that array and leaves it corrupted when two calls overlap. The rule follows the parameter through local aliases
// and into module functions (fixpoint over parameters): it must never be the base of an element store, the
// destination of copy, the first argument of append, or re-sliced beyond its length.
type paramKey struct {
	fn  *types.Func
	idx int
}

type mutationFinder struct {
	p    *core.Program
	memo map[paramKey]string // "" = not mutated, otherwise the reason
	busy map[paramKey]bool
}

func (mf *mutationFinder) paramObj(fd *ast.FuncDecl, info *types.Info, idx int) types.Object {
	k := 0
	for _, f := range fd.Type.Params.List {
		if len(f.Names) == 0 {
			k++
			continue
		}
		for _, nm := range f.Names {
			if k == idx {
				return info.Defs[nm]
			}
			k++
		}
	}
	return nil
}

// mutated reports why the idx-th parameter (a []byte) of f may be written through, or "".
func (mf *mutationFinder) mutated(f *types.Func, idx int) string {
	key := paramKey{f, idx}
	if r, ok := mf.memo[key]; ok {
		return r
	}
	if mf.busy[key] {
		return ""
	}
	mf.busy[key] = true
	defer delete(mf.busy, key)
	fd := mf.p.DeclOf(f)
	if fd == nil || fd.Body == nil {
		mf.memo[key] = ""
		return ""
	}
	info := mf.p.Info(fd)
	po := mf.paramObj(fd, info, idx)
	if po == nil {
		mf.memo[key] = ""
		return ""
	}
	alias := map[types.Object]bool{po: true}
	var isAlias func(e ast.Expr) bool
	isAlias = func(e ast.Expr) bool {
		switch x := core.Unparen(e).(type) {
		case *ast.Ident:
			return alias[core.ObjOf(info, x)]
		case *ast.SliceExpr:
			return isAlias(x.X)
		}
		return false
	}
	for changed := true; changed; {
		changed = false
		ast.Inspect(fd.Body, func(m ast.Node) bool {
			as, ok := m.(*ast.AssignStmt)
			if !ok || len(as.Lhs) != len(as.Rhs) {
				return true
			}
			for i, l := range as.Lhs {
				if id, isID := l.(*ast.Ident); isID && isAlias(as.Rhs[i]) {
					if o := core.ObjOf(info, id); o != nil && !alias[o] {
						alias[o] = true
						changed = true
					}
				}
			}
			return true
		})
	}
	reason := ""
	note := func(pos token.Pos, format string, a ...interface{}) {
		if reason == "" {
			reason = fmt.Sprintf("%s (%s): ", mf.p.FuncName(fd), mf.p.Pos(pos)) + fmt.Sprintf(format, a...)
		}
	}
	ast.Inspect(fd.Body, func(m ast.Node) bool {
		switch x := m.(type) {
		case *ast.AssignStmt:
			for _, l := range x.Lhs {
				if ix, ok := core.Unparen(l).(*ast.IndexExpr); ok && isAlias(ix.X) {
					note(x.Pos(), "stores into an element of it (%s)", core.Src(mf.p.Fset, l))
				}
			}
		case *ast.IncDecStmt:
			if ix, ok := core.Unparen(x.X).(*ast.IndexExpr); ok && isAlias(ix.X) {
				note(x.Pos(), "modifies an element of it (%s)", core.Src(mf.p.Fset, x.X))
			}
		case *ast.SliceExpr:
			if !isAlias(x.X) || x.High == nil {
				return true
			}
			// beyond the length: a high bound built from len(…)+k, or from cap(…)
			ext := false
			ast.Inspect(x.High, func(k ast.Node) bool {
				switch h := k.(type) {
				case *ast.CallExpr:
					if core.IsBuiltin(info, h, "cap") {
						ext = true
					}
				case *ast.BinaryExpr:
					if h.Op == token.ADD {
						if v, isC := core.ConstInt(info, h.Y); isC && v > 0 {
							// len(alias)+k, or n+k with n := len(alias)
							lenLike := false
							ast.Inspect(h.X, func(q ast.Node) bool {
								if c, isCall := q.(*ast.CallExpr); isCall && core.IsBuiltin(info, c, "len") && len(c.Args) == 1 && isAlias(c.Args[0]) {
									lenLike = true
								}
								if id, isID := q.(*ast.Ident); isID {
									if def := singleDef(info, fd.Body, core.ObjOf(info, id)); def != nil {
										if c, isCall := core.Unparen(def).(*ast.CallExpr); isCall && core.IsBuiltin(info, c, "len") && len(c.Args) == 1 && isAlias(c.Args[0]) {
											lenLike = true
										}
									}
								}
								return true
							})
							if lenLike {
								ext = true
							}
						}
					}
				}
				return true
			})
			if ext {
				note(x.Pos(), "re-slices it beyond its length (%s)", core.Src(mf.p.Fset, x))
			}
		case *ast.CallExpr:
			if core.IsBuiltin(info, x, "copy") && len(x.Args) == 2 && isAlias(x.Args[0]) {
				note(x.Pos(), "copies into it (%s)", core.Src(mf.p.Fset, x))
			}
			if core.IsBuiltin(info, x, "append") && len(x.Args) >= 1 && isAlias(x.Args[0]) {
				note(x.Pos(), "appends to it, which writes into its spare capacity (%s)", core.Src(mf.p.Fset, x))
			}
			if callee := core.Callee(info, x); callee != nil && callee.Pkg() != nil && strings.HasPrefix(callee.Pkg().Path(), core.ModPath) {
				for i, a := range x.Args {
					if isAlias(a) {
						if r := mf.mutated(callee, i); r != "" {
							note(x.Pos(), "passes it to %s", r)
						}
					}
				}
			}
		}
		return true
	})
	mf.memo[key] = reason
	return reason
}

func c12r9(rc *core.RC) {
	p := rc.P
	mf := &mutationFinder{p: p, memo: map[paramKey]string{}, busy: map[paramKey]bool{}}
	n := 0
	for _, e := range []struct {
		pkg, fn string
		idx     int
	}{{"json", "Compact", 1}, {"json", "Indent", 1}, {"json", "HTMLEscape", 1}, {"json", "Valid", 0}, {"encoder", "Compact", 1}, {"encoder", "Indent", 1}} {
		f := p.FuncObj(e.pkg, e.fn)
		key := fmt.Sprintf("%s.%s/input read-only", e.pkg, e.fn)
		if f == nil {
			rc.Unknown(key, token.NoPos, "entry point not found")
			continue
		}
		fd := p.DeclOf(f)
		if fd == nil {
			rc.Unknown(key, token.NoPos, "declaration not found")
			continue
		}
		n++
		rc.Touch(p.FuncName(fd))
		r := mf.mutated(f, e.idx)
		rc.Check(r == "", key, fd.Pos(), "the caller's input is only read, on every path through the module functions it is handed to: %s", map[bool]string{true: "no element store, copy destination, append target or re-slice beyond the length", false: r}[r == ""])
	}
	if n < 6 {
		rc.Unknown("json/read-only-inputs", token.NoPos, "found %d of the six entry points", n)
	}
}

// ---- C12.R10 a decoder context's buffer is memory of its own lifetime ----

// Strings, json.Numbers and keys decoded in buffer mode are views of the RuntimeContext's Buf. The Buf of every
// context the decoder package sets up (the nested context of a string-wrapped value, a path evaluation) therefore
// has to be memory that lives exactly as long as the values decoded from it: made in the same call, or the Buf of
// the enclosing context (or a token of it). A scratch buffer kept in a longer-lived object (a Stream field) and
// reused for the next value overwrites the strings the previous value stored.
func c12r10(rc *core.RC) {
	p := rc.P
	of := core.NewOriginFinder(p)
	n := 0
	for _, fn := range p.ModuleFuncs() {
		if fn.Pkg == nil || fn.Pkg.Pkg.Path() != core.PkgPaths["decoder"] {
			continue
		}
		k := 0
		for _, b := range fn.Blocks {
			for _, ins := range b.Instrs {
				st, ok := ins.(*ssa.Store)
				if !ok {
					continue
				}
				fa, ok := st.Addr.(*ssa.FieldAddr)
				if !ok || core.FieldNameOf(fa) != "RuntimeContext.Buf" {
					continue
				}
				k++
				n++
				rc.Touch(core.SSAName(fn))
				key := fmt.Sprintf("%s/ctx.Buf#%d memory-of-the-context's-lifetime", core.SSAName(fn), k)
				var bad []string
				for _, o := range of.Origins(st.Val) {
					switch o.Kind {
					case "make", "alloc", "const", "nil":
						continue
					case "field":
						if o.Name == "RuntimeContext.Buf" {
							continue
						}
					}
					bad = append(bad, o.String())
				}
				rc.Check(len(bad) == 0, key, core.SSAPos(st), "the buffer given to a decoder context is made in this call or is (a token of) the enclosing context's buffer%s", map[bool]string{true: "", false: "; it can derive from " + strings.Join(bad, ", ") + ": memory that outlives the call and is reused overwrites the strings decoded from it earlier"}[len(bad) == 0])
			}
		}
	}
	if n < 2 {
		rc.Unknown("decoder/context-buffers", token.NoPos, "found %d stores to RuntimeContext.Buf in the decoder package", n)
	}
}

// ---- C12.R11 only the entry points take a context from the decoder's pool ----

// A pooled decoder context still holds, in Buf, the private input copy of the Unmarshal call that used it last, and
// the strings that call returned are views of it. The entry points of package json overwrite Buf with the copy of
// their own input and own the context until they release it. A decoder that takes a second context from the pool in
// the middle of a decode and reuses its Buf as scratch overwrites the strings of an earlier result, and hands out
// strings that the next taker overwrites. The callers of decoder.TakeRuntimeContext are a frozen set: the four
// unmarshal functions of package json.
func c12r11(rc *core.RC) {
	p := rc.P
	allowed := map[string]bool{"json.unmarshal": true, "json.unmarshalContext": true, "json.unmarshalNoEscape": true, "json.extractFromPath": true}
	n := 0
	for _, pk := range []string{"json", "decoder"} {
		for _, fd := range p.Funcs(pk) {
			if fd.Body == nil {
				continue
			}
			info := p.Info(fd)
			fn := p.FuncName(fd)
			ast.Inspect(fd.Body, func(m ast.Node) bool {
				c, ok := m.(*ast.CallExpr)
				if !ok || core.CalleeName(info, c) != "decoder.TakeRuntimeContext" {
					return true
				}
				n++
				rc.CallSites++
				rc.Touch(fn)
				key := fn + "/takes-a-pooled-decoder-context"
				rc.Check(allowed[fn], key, c.Pos(), "only the unmarshal entry points of package json take a context from the decoder's pool (they replace its buffer by the copy of their own input and own it until the release); %s is not one of them: the pooled buffer it reuses holds strings of an earlier result", fn)
				return true
			})
		}
	}
	if n < 4 {
		rc.Unknown("decoder/pool-takers", token.NoPos, "found %d calls of decoder.TakeRuntimeContext (confirmed: 4)", n)
	}
}

// ---- C12.R12 the stream cursor goes back to zero only when the window moves forward with it ----

// Strings decoded in stream mode are views of the window (Stream.buf). Consumed bytes are dropped by sliding the
// window forward (s.buf = s.buf[s.cursor:]) and setting the cursor to zero relative to the new start: the bytes a
// decoded string refers to are never written again. Setting cursor (or length) to zero while s.buf stays where it is
// rewinds the window: the next read fills the same memory from the start and overwrites the strings decoded from it.
// Every assignment of the constant zero to Stream.cursor or Stream.length in a method of Stream therefore stands
// next to an assignment of s.buf, in the same block, whose right side is a re-slice from the cursor or a fresh make.
func c12r12(rc *core.RC) {
	p := rc.P
	n := 0
	for _, fd := range p.Funcs("decoder") {
		if fd.Body == nil || fd.Recv == nil {
			continue
		}
		info := p.Info(fd)
		fn := p.FuncName(fd)
		if !strings.Contains(fn, "(*Stream)") {
			continue
		}
		isStreamField := func(e ast.Expr, name string) bool {
			f := core.FieldOf(info, e)
			return f != nil && f.Name() == name && f.Pkg() != nil && f.Pkg().Path() == core.PkgPaths["decoder"]
		}
		k := 0
		ast.Inspect(fd.Body, func(m ast.Node) bool {
			var list []ast.Stmt
			switch b := m.(type) {
			case *ast.BlockStmt:
				list = b.List
			case *ast.CaseClause:
				list = b.Body
			default:
				return true
			}
			for _, st := range list {
				as, ok := st.(*ast.AssignStmt)
				if !ok || len(as.Lhs) != 1 || len(as.Rhs) != 1 || as.Tok != token.ASSIGN {
					continue
				}
				if !isStreamField(as.Lhs[0], "cursor") && !isStreamField(as.Lhs[0], "length") {
					continue
				}
				if v, isC := core.ConstInt(info, as.Rhs[0]); !isC || v != 0 {
					continue
				}
				k++
				n++
				rc.Touch(fn)
				key := fmt.Sprintf("%s/%s-set-to-zero#%d window-moves-with-it", fn, core.FieldOf(info, as.Lhs[0]).Name(), k)
				moved := false
				for _, other := range list {
					o, isAs := other.(*ast.AssignStmt)
					if !isAs || len(o.Lhs) != 1 || len(o.Rhs) != 1 || !isStreamField(o.Lhs[0], "buf") {
						continue
					}
					switch r := core.Unparen(o.Rhs[0]).(type) {
					case *ast.SliceExpr:
						if isStreamField(r.X, "buf") && r.Low != nil && isStreamField(r.Low, "cursor") {
							moved = true
						}
					case *ast.CallExpr:
						if core.IsBuiltin(info, r, "make") {
							moved = true
						}
					}
				}
				rc.Check(moved, key, as.Pos(), "the field is set to zero in a block that also moves the window (s.buf = s.buf[s.cursor:] or a fresh make): reset to zero while the window stays where it is, the next read overwrites the bytes that decoded strings refer to")
			}
			return true
		})
	}
	if n < 1 {
		rc.Unknown("decoder/stream-rewinds", token.NoPos, "no assignment of zero to Stream.cursor or Stream.length found (confirmed: Stream.reset)")
	}
}

// ---- C12.R13 nothing in front of the cursor is rewritten in the stream window ----

// A json.Number handed out by Token (UseNumber) and the strings a callback kept are views of the stream window. They
// lie in front of the cursor. The window is rewritten in place only at the token being decoded: an escape sequence
// is replaced by its character at the cursor and the rest of the window is moved up to it. Every write into the
// window therefore starts at the cursor or one byte in front of it (the backslash): a copy destination, the base of
// an append and an element store on Stream.buf are evaluated as linear forms, and the first byte written has to be
// cursor-1 or later. Closing the gap the other way round (moving the scanned head one byte up and re-slicing the
// window) yields the same window-relative indices and rewrites everything handed out before.
func c12r13(rc *core.RC) {
	p := rc.P
	pk := p.Pkg("decoder")
	if pk == nil {
		rc.Unknown("decoder", token.NoPos, "package not found")
		return
	}
	info := pk.TypesInfo
	isWindow := func(e ast.Expr) bool {
		f := core.FieldOf(info, e)
		if f == nil || f.Name() != "buf" {
			return false
		}
		sel, ok := core.Unparen(e).(*ast.SelectorExpr)
		if !ok {
			return false
		}
		return strings.HasSuffix(strings.TrimPrefix(info.TypeOf(sel.X).String(), "*"), "decoder.Stream")
	}
	n := 0
	for _, fd := range p.Funcs("decoder") {
		if fd.Body == nil {
			continue
		}
		name := p.FuncName(fd)
		le := &core.LinearEval{Info: info, Pkg: pk, Body: fd.Body}
		cursorAtoms := map[string]bool{}
		ast.Inspect(fd.Body, func(m ast.Node) bool {
			switch x := m.(type) {
			case *ast.Ident:
				if isCursorExpr(x) {
					cursorAtoms[x.Name] = true
				}
			case *ast.SelectorExpr:
				if x.Sel.Name == "cursor" {
					cursorAtoms[types.ExprString(x)] = true
				}
			}
			return true
		})
		// first byte written >= cursor-1
		fromCursor := func(lo core.Linear) bool {
			if !lo.OK {
				return false
			}
			nz := nonzeroTerms(lo)
			return len(nz) == 1 && cursorAtoms[nz[0]] && lo.Terms[nz[0]] == 1 && lo.Const >= -1
		}
		k := 0
		report := func(pos token.Pos, what string, lo core.Linear, fresh bool) {
			k++
			n++
			rc.Touch(name)
			key := fmt.Sprintf("%s/window-write#%d starts-at-the-cursor", name, k)
			if fresh {
				rc.OK(key, pos, "%s: the window was allocated in the statement before", what)
				return
			}
			rc.Check(fromCursor(lo), key, pos, "%s writes into the stream window from offset %s on: the first byte written has to be the one in front of the cursor or later; what lies further in front (numbers handed out by Token with UseNumber, texts a callback kept) is a view of this memory and would change under its holder", what, lo)
		}
		// s.buf = make(...) directly in front of stmt
		freshBefore := func(st ast.Node) bool {
			path := core.PathTo(fd.Body, st)
			for i := len(path) - 2; i >= 0; i-- {
				blk, ok := path[i].(*ast.BlockStmt)
				if !ok {
					continue
				}
				for j, s2 := range blk.List {
					if ast.Node(s2) != path[i+1] || j == 0 {
						continue
					}
					if as, ok := blk.List[j-1].(*ast.AssignStmt); ok && len(as.Lhs) == 1 && len(as.Rhs) == 1 && isWindow(as.Lhs[0]) {
						if c, ok := core.Unparen(as.Rhs[0]).(*ast.CallExpr); ok && core.IsBuiltin(info, c, "make") {
							return true
						}
					}
				}
				break
			}
			return false
		}
		ast.Inspect(fd.Body, func(m ast.Node) bool {
			switch x := m.(type) {
			case *ast.CallExpr:
				switch {
				case core.IsBuiltin(info, x, "copy") && len(x.Args) == 2:
					dst := core.Unparen(x.Args[0])
					if isWindow(dst) {
						var stmt ast.Node = x
						for _, pn := range core.PathTo(fd.Body, x) {
							if es, ok := pn.(*ast.ExprStmt); ok {
								stmt = es
							}
						}
						report(x.Pos(), "copy(s.buf, …)", core.LinConst(0), freshBefore(stmt))
					} else if se, ok := dst.(*ast.SliceExpr); ok && isWindow(se.X) {
						lo := core.LinConst(0)
						if se.Low != nil {
							lo = le.Eval(se.Low)
						}
						report(x.Pos(), "copy("+core.Src(p.Fset, dst)+", …)", lo, false)
					}
				case core.IsBuiltin(info, x, "append") && len(x.Args) > 0:
					base := core.Unparen(x.Args[0])
					if isWindow(base) {
						report(x.Pos(), "append(s.buf, …)", le.Eval(&ast.CallExpr{Fun: ast.NewIdent("len"), Args: []ast.Expr{base}}), false)
					} else if se, ok := base.(*ast.SliceExpr); ok && isWindow(se.X) {
						var hi core.Linear
						if se.High != nil {
							hi = le.Eval(se.High)
						}
						report(x.Pos(), "append("+core.Src(p.Fset, base)+", …)", hi, false)
					}
				}
			case *ast.AssignStmt:
				for _, l := range x.Lhs {
					if ix, ok := core.Unparen(l).(*ast.IndexExpr); ok && isWindow(ix.X) {
						report(x.Pos(), core.Src(p.Fset, l)+" = …", le.Eval(ix.Index), false)
					}
				}
			}
			return true
		})
	}
	if n < 8 {
		rc.Unknown("decoder/window-writes", token.NoPos, "found %d in-place writes into Stream.buf (confirmed: 11)", n)
	}
}
