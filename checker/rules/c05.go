package rules

import (
	"fmt"
	"go/ast"
	"go/token"
	"go/types"
	"regexp"
	"sort"
	"strings"
	"sync"

	"golang.org/x/tools/go/cfg"

	"verif/checker/core"
)

// ---- byte dispatch sites (A3) ----

type dispatchSite struct {
	fd   *ast.FuncDecl
	fn   string
	bs   *core.ByteSwitch
	role string // in-string | escape | value | other
	cf   *core.FuncCFG
	idx  int // ordinal of this role inside the function
	memo map[int]byteOutcome
}

var scannerFiles = map[string]bool{"compact.go": true, "indent.go": true}

func isByteExpr(info *types.Info, e ast.Expr) bool {
	tv := info.Types[e]
	if tv.Type == nil {
		return false
	}
	b, ok := tv.Type.Underlying().(*types.Basic)
	return ok && b.Kind() == types.Uint8
}

// dispatchSites enumerates every byte switch of the decoding scanners: all of
// package decoder, and compact.go / indent.go of package encoder.
func dispatchSites(rc *core.RC) []*dispatchSite {
	p := rc.P
	var out []*dispatchSite
	for _, short := range []string{"decoder", "encoder"} {
		for _, fd := range p.Funcs(short) {
			if fd.Body == nil {
				continue
			}
			if short == "encoder" && !scannerFiles[p.FileBase(fd.Pos())] {
				continue
			}
			info := p.Info(fd)
			var cf *core.FuncCFG
			count := map[string]int{}
			ast.Inspect(fd.Body, func(n ast.Node) bool {
				sw, ok := n.(*ast.SwitchStmt)
				if !ok || sw.Tag == nil || !isByteExpr(info, sw.Tag) {
					return true
				}
				bs, _ := core.EvalByteSwitch(info, sw)
				if bs == nil {
					return true
				}
				if cf == nil {
					cf = core.BuildCFGFor(fd, info)
				}
				role := "other"
				esc := bs.HasSingleton('u')
				for _, l := range "bfnrt" {
					if !bs.HasLabel(byte(l)) {
						esc = false
					}
				}
				switch {
				case esc:
					role = "escape"
				case bs.HasSingleton('"') && bs.HasSingleton('\\'):
					role = "in-string"
				case constIndexTag(info, sw.Tag):
					// dispatch on the first byte of an already delimited token (src[0]), not on the input position
					role = "token"
				case bs.HasLabel('{') || bs.HasLabel('[') || bs.HasLabel('n') || bs.HasLabel('t') || bs.HasLabel('-') || bs.HasLabel('0') ||
					bs.HasLabel(',') || bs.HasLabel(']') || bs.HasLabel('}') || bs.HasLabel(':'):
					role = "value"
				}
				count[role]++
				out = append(out, &dispatchSite{fd: fd, fn: p.FuncName(fd), bs: bs, role: role, cf: cf, idx: count[role]})
				return true
			})
		}
	}
	return out
}

func constIndexTag(info *types.Info, tag ast.Expr) bool {
	ix, ok := core.Unparen(tag).(*ast.IndexExpr)
	if !ok {
		return false
	}
	_, isConst := core.ConstInt(info, ix.Index)
	return isConst
}

func (d *dispatchSite) key(suffix string) string {
	if d.idx > 1 {
		return fmt.Sprintf("%s/%s-dispatch#%d/%s", d.fn, d.role, d.idx, suffix)
	}
	return fmt.Sprintf("%s/%s-dispatch/%s", d.fn, d.role, suffix)
}

// entryBlock is where control goes for byte b: the body of its clause, or the
// point after the switch when no clause matches.
func (d *dispatchSite) entryBlock(b int) *cfg.Block {
	if ci := d.bs.Of[b]; ci >= 0 {
		if blk := d.cf.CaseBodyBlock(d.bs.Clauses[ci]); blk != nil {
			return blk
		}
	}
	return d.cf.SwitchDoneBlock(d.bs.Stmt)
}

// Scan positions are found by role, not by name: a variable of type int64 is a scan cursor of its function when it
// indexes a byte slice or string there (`buf[c]`, `buf[c+k]`) or is the position argument of char(p, c); the cursor
// field of Stream is one by declaration. The identifiers that denote such variables are marked once per loaded
// program.
var cursorIdents sync.Map // *ast.Ident → true
var cursorObjs sync.Map   // types.Object → true

func isCursorObj(o types.Object) bool {
	if v, ok := o.(*types.Var); ok && v.IsField() {
		return v.Name() == "cursor"
	}
	_, ok := cursorObjs.Load(o)
	return ok
}

func init() { core.Prepare = append(core.Prepare, markCursors) }

func markCursors(p *core.Program) {
	for _, pk := range p.LibPkgs() {
		info := pk.TypesInfo
		cursors := map[types.Object]bool{}
		isInt64Var := func(e ast.Expr) types.Object {
			e = core.Unparen(e)
			if be, ok := e.(*ast.BinaryExpr); ok && (be.Op == token.ADD || be.Op == token.SUB) {
				e = core.Unparen(be.X)
			}
			id, ok := e.(*ast.Ident)
			if !ok {
				return nil
			}
			v, ok := core.ObjOf(info, id).(*types.Var)
			if !ok || v.IsField() {
				return nil
			}
			if b, ok := v.Type().Underlying().(*types.Basic); !ok || b.Kind() != types.Int64 {
				return nil
			}
			return v
		}
		for _, f := range pk.Syntax {
			ast.Inspect(f, func(x ast.Node) bool {
				switch v := x.(type) {
				case *ast.IndexExpr:
					t := info.TypeOf(v.X)
					if t == nil {
						return true
					}
					bytes := false
					switch u := t.Underlying().(type) {
					case *types.Slice:
						b, ok := u.Elem().Underlying().(*types.Basic)
						bytes = ok && b.Kind() == types.Uint8
					case *types.Basic:
						bytes = u.Info()&types.IsString != 0
					}
					if bytes {
						if o := isInt64Var(v.Index); o != nil {
							cursors[o] = true
						}
					}
				case *ast.CallExpr:
					if id, ok := core.Unparen(v.Fun).(*ast.Ident); ok && id.Name == "char" && len(v.Args) == 2 {
						if o := isInt64Var(v.Args[1]); o != nil {
							cursors[o] = true
						}
					}
				}
				return true
			})
		}
		for _, f := range pk.Syntax {
			ast.Inspect(f, func(x ast.Node) bool {
				if id, ok := x.(*ast.Ident); ok && cursors[core.ObjOf(info, id)] {
					cursorIdents.Store(id, true)
					cursorObjs.Store(core.ObjOf(info, id), true)
				}
				return true
			})
		}
	}
}

func isCursorExpr(e ast.Expr) bool {
	switch x := core.Unparen(e).(type) {
	case *ast.Ident:
		_, ok := cursorIdents.Load(x)
		return ok
	case *ast.SelectorExpr:
		return x.Sel.Name == "cursor"
	}
	return false
}

func nodeAdvances(n ast.Node) bool {
	hit := false
	ast.Inspect(n, func(m ast.Node) bool {
		switch x := m.(type) {
		case *ast.IncDecStmt:
			if isCursorExpr(x.X) && x.Tok == token.INC {
				hit = true
			}
		case *ast.AssignStmt:
			for _, l := range x.Lhs {
				if isCursorExpr(l) {
					hit = true
				}
			}
		case *ast.ReturnStmt:
			for _, r := range x.Results {
				if be, ok := core.Unparen(r).(*ast.BinaryExpr); ok && be.Op == token.ADD && isCursorExpr(be.X) {
					hit = true
				}
			}
		}
		return !hit
	})
	return hit
}

// isCurrentByteRead: s.char(), buf[cursor], s.buf[s.cursor], char(p, cursor), or the switch tag identifier.
func (d *dispatchSite) isCurrentByteRead(info *types.Info, e ast.Expr) bool {
	e = core.Unparen(e)
	if id, ok := e.(*ast.Ident); ok {
		if t, ok := core.Unparen(d.bs.Stmt.Tag).(*ast.Ident); ok && core.ObjOf(info, id) == core.ObjOf(info, t) {
			return true
		}
		return false
	}
	if types.ExprString(e) == types.ExprString(core.Unparen(d.bs.Stmt.Tag)) {
		return true
	}
	switch x := e.(type) {
	case *ast.IndexExpr:
		return isCursorExpr(x.Index)
	case *ast.CallExpr:
		cn := core.CalleeName(info, x)
		if cn == "decoder.Stream.char" {
			return true
		}
		if cn == "decoder.char" && len(x.Args) == 2 && isCursorExpr(x.Args[1]) {
			return true
		}
	}
	return false
}

type byteOutcome struct{ allError, advances bool }

// outcome explores the CFG from the entry of byte b. While the cursor has not
// moved on the current path, conditions of the form <current byte> ==/!= K are
// decided for b (the only path sensitivity used). Exploration stops when the
// dispatch is evaluated again.
func (d *dispatchSite) outcome(b int) byteOutcome {
	if o, ok := d.memo[b]; ok {
		return o
	}
	info := d.cf.Info
	entry := d.entryBlock(b)
	res := byteOutcome{allError: true}
	if entry == nil {
		res.allError = false
		return res
	}
	head, _ := d.cf.BlockOf(d.bs.Stmt.Tag)
	type st struct {
		blk *cfg.Block
		adv bool
	}
	seen := map[st]bool{}
	var visit func(blk *cfg.Block, adv bool)
	visit = func(blk *cfg.Block, adv bool) {
		if blk == head && blk != entry {
			res.allError = false // back at the dispatch without an error
			if adv {
				res.advances = true
			}
			return
		}
		k := st{blk, adv}
		if seen[k] {
			return
		}
		seen[k] = true
		for i, n := range blk.Nodes {
			if i == len(blk.Nodes)-1 && len(blk.Succs) == 2 {
				break // condition handled below
			}
			if nodeAdvances(n) {
				adv = true
			}
		}
		if r := core.BlockReturn(blk); r != nil {
			if !d.cf.IsFailure(r) {
				res.allError = false
				if adv {
					res.advances = true
				}
			}
			return
		}
		if len(blk.Succs) == 0 {
			if len(blk.Nodes) > 0 {
				if es, ok := blk.Nodes[len(blk.Nodes)-1].(*ast.ExprStmt); ok {
					if call, ok := es.X.(*ast.CallExpr); ok && core.IsBuiltin(info, call, "panic") {
						return
					}
				}
			}
			res.allError = false
			return
		}
		if len(blk.Succs) == 2 && len(blk.Nodes) > 0 && !adv {
			if cond, ok := blk.Nodes[len(blk.Nodes)-1].(ast.Expr); ok {
				if be, ok := core.Unparen(cond).(*ast.BinaryExpr); ok && (be.Op == token.EQL || be.Op == token.NEQ) {
					var kv int64
					var kok, rd bool
					if v, ok := core.ConstInt(info, be.Y); ok && d.isCurrentByteRead(info, be.X) {
						kv, kok, rd = v, true, true
					} else if v, ok := core.ConstInt(info, be.X); ok && d.isCurrentByteRead(info, be.Y) {
						kv, kok, rd = v, true, true
					}
					if kok && rd {
						truth := (int64(b) == kv) == (be.Op == token.EQL)
						if truth {
							visit(blk.Succs[0], adv)
						} else {
							visit(blk.Succs[1], adv)
						}
						return
					}
				}
			}
		}
		for _, s := range blk.Succs {
			visit(s, adv)
		}
	}
	visit(entry, false)
	if d.memo == nil {
		d.memo = map[int]byteOutcome{}
	}
	d.memo[b] = res
	return res
}

func (d *dispatchSite) isError(b int) bool  { return d.outcome(b).allError }
func (d *dispatchSite) advances(b int) bool { return d.outcome(b).advances }

var allowedValueBytes = func() map[int]bool {
	m := map[int]bool{0: true}
	for _, c := range " \t\n\r{}[]\",:-0123456789tfn" {
		m[int(c)] = true
	}
	return m
}()

func c05r1(rc *core.RC) {
	sites := dispatchSites(rc)
	nIn, nVal, nEsc := 0, 0, 0
	for _, d := range sites {
		rc.Touch(d.fn)
		switch d.role {
		case "in-string":
			nIn++
			// structural clauses
			for _, b := range []byte{'"', '\\'} {
				rc.Check(d.bs.HasSingleton(b), d.key(fmt.Sprintf("clause %q", rune(b))), d.bs.Stmt.Pos(), "has its own clause")
			}
			var raw []int
			for b := 1; b < 0x20; b++ {
				if !d.isError(b) {
					raw = append(raw, b)
				}
			}
			if len(raw) == 0 {
				rc.OK(d.key("control-bytes"), d.bs.Stmt.Pos(), "0x01-0x1f reach an error")
			} else {
				rc.Bad(d.key("control-bytes"), d.bs.Stmt.Pos(), "inside a string the bytes %s do not reach an error: a raw control character is accepted (RFC 8259 §7 forbids it)", core.FmtBytes(raw))
			}
			// the backslash clause has to look at the escape letter: an escape dispatch in the clause, in a
			// function it calls, or (for scanners that jump) elsewhere in the same function
			if bc := d.bs.ClauseOf('\\'); bc != nil {
				validated := escapeValidated(rc, rc.P.Info(d.fd), bc, 0)
				if !validated {
					for _, o := range sites {
						if o.fd == d.fd && o.role == "escape" {
							validated = true
						}
					}
				}
				if validated {
					rc.OK(d.key("escape-letter"), bc.Pos(), "the byte after a backslash goes through an escape dispatch")
				} else {
					rc.Bad(d.key("escape-letter"), bc.Pos(), "the byte after a backslash is stepped over without being looked at: \\q, \\x and \\u followed by anything are accepted here")
				}
			}
			if !d.isError(0) {
				// NUL must either error or refill (stream); in buffer mode it must error
				cc := d.bs.ClauseOf(0)
				refill := false
				if cc != nil {
					ast.Inspect(cc, func(n ast.Node) bool {
						if call, ok := n.(*ast.CallExpr); ok {
							if cn := core.CalleeName(rc.P.Info(d.fd), call); cn == "decoder.Stream.read" {
								refill = true
							}
						}
						return true
					})
				}
				rc.Check(refill, d.key("nul"), d.bs.Stmt.Pos(), "NUL inside a string is an error or triggers a refill")
			} else {
				rc.OK(d.key("nul"), d.bs.Stmt.Pos(), "NUL inside a string is an error")
			}
		case "value":
			nVal++
			var stray []int
			for b := 0; b < 256; b++ {
				if !allowedValueBytes[b] && !d.isError(b) && d.advances(b) {
					stray = append(stray, b)
				}
			}
			if len(stray) == 0 {
				rc.OK(d.key("stray-bytes"), d.bs.Stmt.Pos(), "every byte outside blank { } [ ] \" , : - 0-9 t f n reaches an error or is left unconsumed for the caller")
			} else {
				rc.Bad(d.key("stray-bytes"), d.bs.Stmt.Pos(), "%d byte values that cannot start or separate a JSON value do not reach an error here (e.g. %s): they are stepped over or accepted", len(stray), core.FmtBytes(sample(stray, 6)))
			}
		case "escape":
			nEsc++
			c05escape(rc, d)
		}
	}
	if nIn < 14 || nVal < 40 || nEsc < 5 {
		rc.Unknown("decoder/dispatch-inventory", token.NoPos, "found %d in-string, %d value-level, %d escape dispatches (confirmed by hand: 16, ≥45, 5)", nIn, nVal, nEsc)
	}
}

func sample(xs []int, n int) []int {
	if len(xs) <= n {
		return xs
	}
	return xs[:n]
}

// c05escape: accepted letters are exactly " \ / b f n r t u (NUL may refill), and \u tests four hex digits.
func c05escape(rc *core.RC, d *dispatchSite) {
	legal := setOf(`"\/bfnrtu`)
	info := rc.P.Info(d.fd)
	var extra []int
	for b := 0; b < 256; b++ {
		if legal[b] {
			rc.Check(d.bs.HasLabel(byte(b)) && !d.isError(b), d.key(fmt.Sprintf("letter %q", rune(b))), d.bs.Stmt.Pos(), "escape \\%c is accepted", rune(b))
			continue
		}
		if b == 0 {
			continue // NUL: end of buffer (error) or refill (stream)
		}
		if !d.isError(b) {
			extra = append(extra, b)
		}
	}
	if len(extra) == 0 {
		rc.OK(d.key("illegal-letters"), d.bs.Stmt.Pos(), "every other byte after a backslash reaches an error")
	} else {
		rc.Bad(d.key("illegal-letters"), d.bs.Stmt.Pos(), "%d byte values after a backslash do not reach an error (e.g. %s): an invalid escape is accepted", len(extra), core.FmtBytes(sample(extra, 6)))
	}
	// \u: four hex digits tested
	cc := d.bs.ClauseOf('u')
	if cc == nil {
		return
	}
	if acc, where, ok := hexAccepted(rc, info, cc, 0, map[*types.Func]bool{}); ok {
		var extra, missing []int
		for b := 0; b < 256; b++ {
			isHex := (b >= '0' && b <= '9') || (b >= 'a' && b <= 'f') || (b >= 'A' && b <= 'F')
			if acc[b] && !isHex {
				extra = append(extra, b)
			}
			if !acc[b] && isHex {
				missing = append(missing, b)
			}
		}
		if len(extra) == 0 && len(missing) == 0 {
			rc.OK(d.key("u-hex-digits"), cc.Pos(), "the digit test at %s lets exactly 0-9 a-f A-F through (evaluated for all 256 byte values)", rc.P.Pos(where))
		} else {
			rc.Bad(d.key("u-hex-digits"), where, "the digit test of the \\u escape accepts %s besides the hexadecimal digits and rejects %s of them (evaluated for all 256 byte values): bytes that are not hexadecimal digits are read as digits", orNone(core.FmtBytes(extra)), orNone(core.FmtBytes(missing)))
		}
	} else {
		rc.Check(hexTested(rc, info, cc, 0), d.key("u-hex-digits"), cc.Pos(), "the \\u clause (or a function it calls) range-tests the four digits against 0-9 a-f A-F; without it non-hex digits are read as 0")
	}
}

// hexTested: the node, or a module function it calls (up to four levels), compares bytes with all of '0' '9' 'a' 'f' 'A' 'F'.
// hexAccepted looks, in n and in the module functions n calls, for an if statement that leaves through a
// return when a byte variable fails a test, where the bytes that pass include 0, 9, a and f but neither
// the backslash nor u (that is: a digit test, not a delimiter test). It returns the set of passing bytes.
func hexAccepted(rc *core.RC, info *types.Info, n ast.Node, depth int, seen map[*types.Func]bool) (acc [256]bool, where token.Pos, ok bool) {
	bp := &core.BytePred{P: rc.P}
	var callees []*types.Func
	ast.Inspect(n, func(x ast.Node) bool {
		if ok {
			return false
		}
		switch e := x.(type) {
		case *ast.CallExpr:
			if f := core.Callee(info, e); f != nil && f.Pkg() != nil && strings.HasPrefix(f.Pkg().Path(), core.ModPath) {
				callees = append(callees, f)
			}
		case *ast.IfStmt:
			leaves := false
			for _, st := range e.Body.List {
				if _, isRet := st.(*ast.ReturnStmt); isRet {
					leaves = true
				}
			}
			if !leaves {
				return true
			}
			// the single byte-typed local the condition depends on
			var v types.Object
			many := false
			ast.Inspect(e.Cond, func(k ast.Node) bool {
				id, isId := k.(*ast.Ident)
				if !isId {
					return true
				}
				o, isVar := info.Uses[id].(*types.Var)
				if !isVar || o.IsField() || o.Pkg() == nil || o.Parent() == o.Pkg().Scope() {
					return true
				}
				if b, isB := o.Type().Underlying().(*types.Basic); isB && (b.Kind() == types.Uint8 || b.Kind() == types.Int32) {
					if v != nil && v != o {
						many = true
					}
					v = o
				}
				return true
			})
			if v == nil || many {
				return true
			}
			var a [256]bool
			for b := 0; b < 256; b++ {
				bp.Steps = 0
				r, evalOK := bp.EvalBool(info, e.Cond, core.Bind(v, int64(b)))
				if !evalOK {
					return true
				}
				a[b] = !r
			}
			if a['0'] && a['9'] && a['a'] && a['f'] && !a['\\'] && !a['u'] && !a['"'] {
				acc, where, ok = a, e.Cond.Pos(), true
			}
		}
		return true
	})
	if ok || depth >= 4 {
		return
	}
	for _, f := range callees {
		if seen[f] {
			continue
		}
		seen[f] = true
		if fd := rc.P.DeclOf(f); fd != nil && fd.Body != nil {
			if a, w, k := hexAccepted(rc, rc.P.Info(fd), fd.Body, depth+1, seen); k {
				return a, w, true
			}
		}
	}
	return
}

func hexTested(rc *core.RC, info *types.Info, n ast.Node, depth int) bool {
	seen := map[int64]bool{}
	var callees []*types.Func
	ast.Inspect(n, func(x ast.Node) bool {
		switch e := x.(type) {
		case *ast.BinaryExpr:
			switch e.Op {
			case token.LEQ, token.GEQ, token.LSS, token.GTR:
				for _, side := range []ast.Expr{e.X, e.Y} {
					if v, ok := core.ConstInt(info, side); ok {
						seen[v] = true
					}
				}
			}
		case *ast.CallExpr:
			if f := core.Callee(info, e); f != nil && f.Pkg() != nil && strings.HasPrefix(f.Pkg().Path(), core.ModPath) {
				callees = append(callees, f)
			}
		}
		return true
	})
	if seen['0'] && seen['9'] && seen['a'] && seen['f'] && seen['A'] && seen['F'] {
		return true
	}
	if depth >= 4 {
		return false
	}
	for _, f := range callees {
		if fd := rc.P.DeclOf(f); fd != nil && fd.Body != nil {
			if hexTested(rc, rc.P.Info(fd), fd.Body, depth+1) {
				return true
			}
		}
	}
	return false
}

// ---- C05.R2 scanned numbers are validated ----

// A number-scanning loop is a loop whose condition or body tests
// floatTable[...] / numTable[...]. The token it delimits must reach
// validNumber / parseInt / parseUint (directly, or by being returned to
// a caller that does) before the function reports success.
func c05r2(rc *core.RC) {
	p := rc.P
	pk := p.Pkg("decoder")
	tables := map[types.Object]bool{}
	for _, n := range []string{"floatTable", "numTable"} {
		if o := pk.Types.Scope().Lookup(n); o != nil {
			tables[o] = true
		}
	}
	if len(tables) != 2 {
		rc.Unknown("decoder/number-tables", token.NoPos, "floatTable/numTable not found")
		return
	}
	// strconv.ParseFloat is not a validator of the JSON grammar: it accepts "01", "1.", "-.5", "1.e2"
	validators := map[string]bool{"decoder.validNumber": true, "decoder.intDecoder.parseInt": true, "decoder.uintDecoder.parseUint": true, "strconv.ParseInt": true, "strconv.ParseUint": true}
	// functions that scan
	scans := map[*ast.FuncDecl][]ast.Node{}
	for _, fd := range p.Funcs("decoder") {
		if fd.Body == nil {
			continue
		}
		info := p.Info(fd)
		ast.Inspect(fd.Body, func(n ast.Node) bool {
			if ix, ok := n.(*ast.IndexExpr); ok && tables[core.ObjOf(info, ix.X)] {
				scans[fd] = append(scans[fd], ix)
			}
			return true
		})
	}
	// does fd itself call a validator?
	callsValidator := func(fd *ast.FuncDecl) bool {
		info := p.Info(fd)
		found := false
		ast.Inspect(fd.Body, func(n ast.Node) bool {
			if call, ok := n.(*ast.CallExpr); ok && validators[core.CalleeName(info, call)] {
				found = true
			}
			return true
		})
		return found
	}
	returnsBytes := func(fd *ast.FuncDecl) bool {
		obj, _ := p.Info(fd).Defs[fd.Name].(*types.Func)
		if obj == nil {
			return false
		}
		res := obj.Type().(*types.Signature).Results()
		for i := 0; i < res.Len(); i++ {
			if res.At(i).Type().String() == "[]byte" {
				return true
			}
		}
		return false
	}
	// callers index
	callers := map[*types.Func][]*ast.FuncDecl{}
	for _, fd := range p.Funcs("decoder") {
		if fd.Body == nil {
			continue
		}
		info := p.Info(fd)
		ast.Inspect(fd.Body, func(n ast.Node) bool {
			if call, ok := n.(*ast.CallExpr); ok {
				if f := core.Callee(info, call); f != nil {
					callers[f.Origin()] = append(callers[f.Origin()], fd)
				}
			}
			return true
		})
	}
	var fds []*ast.FuncDecl
	for fd := range scans {
		fds = append(fds, fd)
	}
	sort.Slice(fds, func(i, j int) bool { return fds[i].Pos() < fds[j].Pos() })
	for _, fd := range fds {
		fn := p.FuncName(fd)
		rc.Touch(fn)
		key := fn + "/number-scan"
		if callsValidator(fd) {
			if validatorGuardsSuccess(p, fd, validators) {
				rc.OK(key, fd.Pos(), "token reaches a numeric parser in the same function")
			} else {
				rc.Bad(key, fd.Pos(), "a validator is called, but a success return after the scan can be reached without passing the call (a fast path or a short-circuit in front of it)")
			}
			continue
		}
		if returnsBytes(fd) {
			// the token is handed back: every caller chain (two levels) must validate or hand it on
			obj, _ := p.Info(fd).Defs[fd.Name].(*types.Func)
			ok, why := true, ""
			var visit func(f *types.Func, depth int) bool
			visit = func(f *types.Func, depth int) bool {
				cs := callers[f]
				if len(cs) == 0 {
					return false
				}
				for _, c := range cs {
					if callsValidator(c) {
						if ok, detail := callerValidatesEverySuccess(p, c, f, validators, rc.Tier); !ok {
							why = p.FuncName(c) + " (it calls a validator, but a success return behind the scan is reached without passing the call: " + detail + ")"
							return false
						}
						continue
					}
					cobj, _ := p.Info(c).Defs[c.Name].(*types.Func)
					if returnsBytes(c) && depth < 3 && cobj != nil && visit(cobj, depth+1) {
						continue
					}
					// callers that keep the raw text as a number token (json.Number, RawMessage, Token) are
					// consumers of text, not of a number value; they are listed explicitly
					if textConsumers[p.FuncName(c)] || c.Name.Name == "DecodePath" {
						continue
					}
					why = p.FuncName(c)
					return false
				}
				return true
			}
			if obj != nil {
				ok = visit(obj, 0)
			}
			if ok {
				rc.OK(key, fd.Pos(), "token is returned and every caller validates it or keeps it as text")
			} else {
				rc.Bad(key, fd.Pos(), "scanned number token is returned to %s which neither parses it nor is a known text consumer", why)
			}
			continue
		}
		rc.Bad(key, scans[fd][0].Pos(), "a run of number characters (floatTable/numTable) is consumed and the function reports success without the token ever reaching validNumber/parseInt/parseUint: malformed numbers such as 1e+-.5 are accepted here")
	}
}

// c05r6 (encoder side of the number grammar): the encoder's number scanner (Compact, Indent, Valid, marshaler output) and json.Number
// values reach the encoder's validNumber, and the two copies of validNumber are the same function.
func c05r6(rc *core.RC) {
	p := rc.P
	epk := p.Pkg("encoder")
	ft := epk.Types.Scope().Lookup("floatTable")
	n := 0
	for _, fd := range p.Funcs("encoder") {
		if fd.Body == nil {
			continue
		}
		info := p.Info(fd)
		scans, valid := false, false
		ast.Inspect(fd.Body, func(m ast.Node) bool {
			switch x := m.(type) {
			case *ast.IndexExpr:
				if ft != nil && core.ObjOf(info, x.X) == ft {
					scans = true
				}
			case *ast.CallExpr:
				if core.CalleeName(info, x) == "encoder.validNumber" {
					valid = true
				}
			}
			return true
		})
		isNumberAppender := fd.Name.Name == "AppendNumber"
		if !scans && !isNumberAppender {
			continue
		}
		n++
		fn := p.FuncName(fd)
		rc.Touch(fn)
		if valid && !validatorGuardsSuccess(p, fd, map[string]bool{"encoder.validNumber": true}) {
			rc.Bad(fn+"/number-scan", fd.Pos(), "validNumber is called, but a success return can be reached without passing the call (a fast path or a short-circuit in front of it): number texts that take that path are written unchecked")
		} else if valid {
			rc.OK(fn+"/number-scan", fd.Pos(), "the number text is checked by validNumber before it is written")
		} else {
			rc.Bad(fn+"/number-scan", fd.Pos(), "a number is written to the output after at most a character-set test or strconv.ParseFloat: texts such as 01, 1., -.5, +- pass (encoding/json rejects them)")
		}
	}
	if n < 2 {
		rc.Unknown("encoder/number-writers", token.NoPos, "found %d number-writing functions in package encoder (compactNumber and AppendNumber expected)", n)
	}
	a, b := p.Func("decoder", "validNumber"), p.Func("encoder", "validNumber")
	if a == nil || b == nil {
		rc.Bad("validNumber/twins", token.NoPos, "validNumber is missing in package decoder or encoder: number tokens are validated by strconv.ParseFloat at most")
		return
	}
	na := core.NormalStmts(p.Fset, p.Info(a), a.Body.List, core.NormOpts{})
	nb := core.NormalStmts(p.Fset, p.Info(b), b.Body.List, core.NormOpts{})
	if i := core.FirstDiff(na, nb); i >= 0 {
		da, db := "<end>", "<end>"
		if i < len(na) {
			da = na[i]
		}
		if i < len(nb) {
			db = nb[i]
		}
		rc.Bad("validNumber/twins", a.Pos(), "decoder.validNumber and encoder.validNumber differ at statement %d: `%s` vs `%s`; what Unmarshal accepts as a number and what Valid/Compact accept would differ", i+1, da, db)
	} else {
		rc.OK("validNumber/twins", a.Pos(), "the decoder's and the encoder's number grammar validators are the same function (%d statements)", len(na))
	}
}

// functions that deliberately keep a number token as text (each confirmed by reading).
var textConsumers = map[string]bool{}

// ---- C05.R3 top-level trailing check ----

func c05r3(rc *core.RC) {
	p := rc.P
	for _, name := range []string{"unmarshal", "unmarshalContext", "unmarshalNoEscape", "extractFromPath"} {
		fd := p.Func("json", name)
		if fd == nil {
			rc.Unknown("json."+name, token.NoPos, "entry point not found")
			continue
		}
		rc.Touch("json." + name)
		info := p.Info(fd)
		cf := core.BuildCFG(fd.Body, info)
		// the Decode/DecodePath call
		var dec ast.Node
		ast.Inspect(fd.Body, func(n ast.Node) bool {
			if call, ok := n.(*ast.CallExpr); ok {
				if sel, ok := call.Fun.(*ast.SelectorExpr); ok && (sel.Sel.Name == "Decode" || sel.Sel.Name == "DecodePath") {
					dec = call
				}
			}
			return true
		})
		if dec == nil {
			rc.Unknown("json."+name+"/decode-call", fd.Pos(), "no Decode/DecodePath call found")
			continue
		}
		db, _ := cf.BlockOf(dec)
		for _, ret := range cf.Returns() {
			rb, _ := cf.BlockOf(ret)
			if !cf.Dominates(db, rb) || len(ret.Results) == 0 {
				continue // returns before decoding (type validation, root selector shortcut)
			}
			last := ret.Results[len(ret.Results)-1]
			key := fmt.Sprintf("json.%s/return-after-decode", name)
			if call, ok := core.Unparen(last).(*ast.CallExpr); ok && strings.HasSuffix(core.CalleeName(info, call), "validateEndBuf") {
				rc.OK(key, ret.Pos(), "result of validateEndBuf")
				continue
			}
			// `return err` with an error variable: an error return only inside `if err != nil { … }`
			if id, isId := core.Unparen(last).(*ast.Ident); isId && !core.IsNilIdent(info, last) {
				if v, isVar := info.Uses[id].(*types.Var); isVar && core.IsErrorType(v.Type()) {
					inNilTest := false
					path := core.PathTo(fd.Body, ret)
					for i := len(path) - 2; i >= 1; i-- {
						ifs, ok := path[i].(*ast.IfStmt)
						if !ok || path[i+1] != ast.Node(ifs.Body) {
							continue
						}
						if be, ok := core.Unparen(ifs.Cond).(*ast.BinaryExpr); ok && be.Op == token.NEQ && core.IsNilIdent(info, be.Y) && core.ObjOf(info, be.X) == v {
							inNilTest = true
						}
					}
					if !inNilTest {
						rc.Bad(key, ret.Pos(), "after decoding, `return %s` hands back the decoder's error value, which is nil on success: the success path does not go through validateEndBuf, so bytes after the top-level value (also after an embedded NUL) are accepted by this entry point", id.Name)
						continue
					}
				}
			}
			if core.IsNilIdent(info, last) {
				// success return: must be dominated by an erroring validateEndBuf test
				okDom := false
				ast.Inspect(fd.Body, func(n ast.Node) bool {
					ifs, ok := n.(*ast.IfStmt)
					if !ok || ifs.Init == nil {
						return true
					}
					has := false
					ast.Inspect(ifs.Init, func(m ast.Node) bool {
						if c, ok := m.(*ast.CallExpr); ok && strings.HasSuffix(core.CalleeName(info, c), "validateEndBuf") {
							has = true
						}
						return true
					})
					if !has {
						return true
					}
					// the condition is exactly `<err> != nil`: a conjunction would let some trailing input pass
					be, isCmp := core.Unparen(ifs.Cond).(*ast.BinaryExpr)
					if !isCmp || be.Op != token.NEQ || !core.IsNilIdent(info, be.Y) {
						return true
					}
					if _, isId := core.Unparen(be.X).(*ast.Ident); !isId {
						return true
					}
					gb, _ := cf.BlockOf(ifs.Cond)
					tb, _ := core.IfEdges(gb)
					if gb != nil && cf.Dominates(gb, rb) && tb != nil && cf.AllPathsReturnError(tb, nil) {
						okDom = true
					}
					return true
				})
				rc.Check(okDom, key, ret.Pos(), "success return after decoding is dominated by `if err := validateEndBuf(...); err != nil { return err }` (the condition being exactly the nil test)")
				continue
			}
			rc.OK(key+"/error", ret.Pos(), "error return")
		}
	}
	// the NUL clause of validateEndBuf must confirm that the NUL is the sentinel
	for _, short := range []string{"json", "encoder"} {
		fd := p.Func(short, "validateEndBuf")
		if fd == nil {
			rc.Unknown(short+".validateEndBuf", token.NoPos, "not found")
			continue
		}
		rc.Touch(short + ".validateEndBuf")
		info := p.Info(fd)
		key := short + ".validateEndBuf/nul-is-sentinel"
		found := false
		ast.Inspect(fd.Body, func(n ast.Node) bool {
			sw, ok := n.(*ast.SwitchStmt)
			if !ok {
				return true
			}
			bs, _ := core.EvalByteSwitch(info, sw)
			if bs == nil {
				return true
			}
			cc := bs.ClauseOf(0)
			if cc == nil || !bs.HasLabel(0) {
				return true
			}
			found = true
			// a comparison involving len(src) must guard the success return in this clause
			hasLen := false
			ast.Inspect(cc, func(m ast.Node) bool {
				if c, ok := m.(*ast.CallExpr); ok && core.IsBuiltin(info, c, "len") {
					hasLen = true
				}
				return true
			})
			if hasLen {
				rc.OK(key, cc.Pos(), "NUL clause compares the cursor with len(src)")
			} else {
				rc.Bad(key, cc.Pos(), "the NUL clause returns success without checking that the NUL is the appended sentinel (cursor == len(src)-1): input bytes after an embedded NUL are silently ignored")
			}
			return true
		})
		if !found {
			rc.Unknown(key, fd.Pos(), "no NUL clause found")
		}
	}
}

// ---- C05.R5 a separator is followed by an element ----

// consumesInput: the node contains a call that scans input (takes the buffer
// and a cursor, or the *Stream) other than the whitespace skippers and byte peeks.
func consumesInput(info *types.Info, n ast.Node) bool {
	hit := false
	ast.Inspect(n, func(m ast.Node) bool {
		if _, isLit := m.(*ast.FuncLit); isLit {
			return false
		}
		call, ok := m.(*ast.CallExpr)
		if !ok {
			return true
		}
		switch core.CalleeName(info, call) {
		case "decoder.skipWhiteSpace", "encoder.skipWhiteSpace", "decoder.Stream.skipWhiteSpace", "decoder.Stream.char", "decoder.char",
			"decoder.Stream.stat", "decoder.Stream.bufptr", "decoder.Stream.read", "decoder.Stream.totalOffset", "decoder.Stream.statForRetry":
			return true
		}
		f := core.Callee(info, call)
		takes := false
		if sel, ok := core.Unparen(call.Fun).(*ast.SelectorExpr); ok {
			if tv := info.Types[sel.X]; tv.Type != nil && strings.HasSuffix(tv.Type.String(), "decoder.Stream") {
				takes = true // method of *Stream
			}
		}
		for _, a := range call.Args {
			if isCursorExpr(a) {
				takes = true
			}
			if be, ok := core.Unparen(a).(*ast.BinaryExpr); ok && isCursorExpr(be.X) {
				takes = true
			}
			if tv := info.Types[a]; tv.Type != nil && strings.HasSuffix(tv.Type.String(), "decoder.Stream") {
				takes = true
			}
		}
		if takes && (f == nil || strings.HasPrefix(pkgPathOf(f), core.ModPath)) {
			// error constructors take a cursor for the offset but consume nothing
			if f != nil && (strings.HasSuffix(pkgPathOf(f), "/internal/errors") || strings.HasPrefix(f.Name(), "err") || strings.Contains(f.Name(), "Error")) {
				return true
			}
			hit = true
		}
		return true
	})
	return hit
}

func c05r5(rc *core.RC) {
	n := 0
	for _, d := range dispatchSites(rc) {
		if d.role != "value" || !d.bs.HasLabel(',') {
			continue
		}
		// container scanners only: Decode/DecodeStream/DecodePath methods and the compact/indent scanners.
		// (*Stream).Token is a tokenizer that deliberately does not track the grammar; it is outside C05's wording.
		switch nm := d.fd.Name.Name; {
		case nm == "Decode" || nm == "DecodeStream" || nm == "DecodePath":
		case strings.HasPrefix(nm, "compact") || strings.HasPrefix(nm, "indent"):
		default:
			continue
		}
		// only separator dispatches of containers: a closer label must be present too
		if !d.bs.HasLabel(']') && !d.bs.HasLabel('}') {
			continue
		}
		n++
		rc.Touch(d.fn)
		info := d.cf.Info
		entry := d.entryBlock(',')
		key := d.key("comma-then-element")
		if entry == nil {
			rc.Unknown(key, d.bs.Stmt.Pos(), "no entry block for the ',' clause")
			continue
		}
		seen := map[*cfg.Block]bool{}
		var bad *ast.ReturnStmt
		var visit func(b *cfg.Block)
		visit = func(b *cfg.Block) {
			if seen[b] || bad != nil {
				return
			}
			seen[b] = true
			for _, nd := range b.Nodes {
				if consumesInput(info, nd) {
					return // an element (or key) is scanned on this path
				}
			}
			if r := core.BlockReturn(b); r != nil {
				if !d.cf.IsFailure(r) {
					bad = r
				}
				return
			}
			for _, s := range b.Succs {
				visit(s)
			}
		}
		visit(entry)
		if bad == nil {
			rc.OK(key, d.bs.Stmt.Pos(), "after ',' every path scans another element before the container can end successfully")
		} else {
			rc.Bad(key, bad.Pos(), "after a ',' there is a path to a successful return (%s) on which no further element is scanned: a trailing comma before the closing bracket is accepted", core.Clip(core.Src(rc.P.Fset, bad), 60))
		}
	}
	if n < 8 {
		rc.Unknown("decoder/separator-dispatches", token.NoPos, "found %d container separator dispatches (confirmed: array, slice ×3 modes, compact/indent object/array)", n)
	}
}

func orNone(s string) string {
	if s == "" {
		return "none"
	}
	return s
}

// ---- C05.R7 whitespace skippers skip exactly the four JSON whitespace bytes ----

// Every function named skipWhiteSpace (decoder buffer mode, decoder stream mode, encoder
// compact/indent) advances the cursor for a set of byte values; that set is computed for
// all 256 values from the table test or the case labels that guard the advance.
func c05r7(rc *core.RC) {
	p := rc.P
	n := 0
	for _, short := range []string{"decoder", "encoder"} {
		for _, fd := range p.Funcs(short) {
			if fd.Body == nil || fd.Name.Name != "skipWhiteSpace" {
				continue
			}
			info := p.Info(fd)
			fn := p.FuncName(fd)
			rc.Touch(fn)
			n++
			key := fn + "/skipped-bytes"
			bp := &core.BytePred{P: p}
			var skipped [256]bool
			decided := false
			advances := func(nd ast.Node) bool {
				found := false
				ast.Inspect(nd, func(k ast.Node) bool {
					switch x := k.(type) {
					case *ast.IncDecStmt:
						if x.Tok == token.INC && isCursorExpr(x.X) {
							found = true
						}
					case *ast.AssignStmt:
						if x.Tok == token.ADD_ASSIGN && len(x.Lhs) == 1 && isCursorExpr(x.Lhs[0]) {
							if v, isC := core.ConstInt(info, x.Rhs[0]); isC && v >= 1 {
								found = true
							}
						}
					}
					return true
				})
				return found
			}
			// the byte read inside an expression: replace it by a bound variable by evaluating the table directly
			tableOf := func(e ast.Expr) *core.Table {
				ix, ok := core.Unparen(e).(*ast.IndexExpr)
				if !ok {
					return nil
				}
				o := core.ObjOf(info, ix.X)
				if o == nil || o.Pkg() == nil || o.Parent() != o.Pkg().Scope() {
					return nil
				}
				for _, pk := range p.All {
					if pk.Types == o.Pkg() {
						return core.EvalTable(pk, o.Name())
					}
				}
				return nil
			}
			_ = bp
			ast.Inspect(fd.Body, func(m ast.Node) bool {
				if decided {
					return false
				}
				switch x := m.(type) {
				case *ast.ForStmt:
					if x.Cond != nil && advances(x.Body) {
						if t := tableOf(x.Cond); t != nil && !t.Opaque {
							for b := 0; b < 256; b++ {
								skipped[b] = t.Bool(b)
							}
							decided = true
						}
					}
				case *ast.IfStmt:
					if advances(x.Body) {
						if t := tableOf(x.Cond); t != nil && !t.Opaque {
							for b := 0; b < 256; b++ {
								skipped[b] = t.Bool(b)
							}
							decided = true
						}
					}
				case *ast.SwitchStmt:
					bs, _ := core.EvalByteSwitch(info, x)
					if bs == nil {
						return true
					}
					any := false
					for ci, cc := range bs.Clauses {
						if cc == nil || !advances(cc) {
							continue
						}
						for _, b := range bs.Labels[ci] {
							if b >= 0 && b < 256 {
								skipped[b] = true
								any = true
							}
						}
					}
					if any {
						decided = true
					}
				}
				return true
			})
			if !decided {
				// a classification written as an expression over one byte variable (c == ' ' || c-'\t' <= '\r'-'\t'):
				// fold it for all 256 values
				ast.Inspect(fd.Body, func(m ast.Node) bool {
					if decided {
						return false
					}
					var cond ast.Expr
					switch x := m.(type) {
					case *ast.ForStmt:
						if x.Cond != nil && advances(x.Body) {
							cond = x.Cond
						}
					case *ast.IfStmt:
						if advances(x.Body) {
							cond = x.Cond
						}
					}
					if cond == nil {
						return true
					}
					var bv types.Object
					many := false
					ast.Inspect(cond, func(k ast.Node) bool {
						if id, ok := k.(*ast.Ident); ok {
							if o, isVar := info.Uses[id].(*types.Var); isVar && o.Parent() != o.Pkg().Scope() {
								if b, isBasic := o.Type().Underlying().(*types.Basic); isBasic && b.Kind() == types.Uint8 {
									if bv != nil && bv != o {
										many = true
									}
									bv = o
								}
							}
						}
						return true
					})
					if bv == nil || many {
						return true
					}
					var got [256]bool
					for b := 0; b < 256; b++ {
						v, ok := (&core.BytePred{P: p}).EvalBool(info, cond, core.Bind(bv, int64(b)))
						if !ok {
							return true
						}
						got[b] = v
					}
					skipped = got
					decided = true
					return false
				})
			}
			if !decided {
				rc.Unknown(key, fd.Pos(), "neither a table test, a byte switch nor a foldable expression over one byte variable guarding `cursor++` was recognised")
				continue
			}
			var extra, missing []int
			for b := 0; b < 256; b++ {
				ws := b == ' ' || b == '\t' || b == '\n' || b == '\r'
				if skipped[b] && !ws {
					extra = append(extra, b)
				}
				if !skipped[b] && ws {
					missing = append(missing, b)
				}
			}
			if len(extra) == 0 && len(missing) == 0 {
				rc.OK(key, fd.Pos(), "skips exactly space, tab, line feed and carriage return (all 256 byte values evaluated)")
			} else {
				rc.Bad(key, fd.Pos(), "skips %s besides the JSON whitespace and does not skip %s: texts with that byte between tokens are rejected (or garbage is accepted) here while the value dispatchers keep their own whitespace cases", orNone(core.FmtBytes(extra)), orNone(core.FmtBytes(missing)))
			}
		}
	}
	if n < 3 {
		rc.Unknown("skipWhiteSpace/functions", token.NoPos, "found %d functions named skipWhiteSpace (decoder buffer, decoder stream, encoder expected)", n)
	}
}

// validatorGuardsSuccess: the success returns that the number scan of fd can reach (or, in a
// function without a scan, the appends that spread a parameter into the output) are dominated by a
// block holding a validator call. go/cfg splits && and ||, so a call on the right of a
// short-circuit does not dominate what follows.
func validatorGuardsSuccess(p *core.Program, fd *ast.FuncDecl, validators map[string]bool) bool {
	info := p.Info(fd)
	cf := core.BuildCFG(fd.Body, info)
	blockOfPos := func(pos, end token.Pos) *cfg.Block {
		for _, b := range cf.G.Blocks {
			for _, nd := range b.Nodes {
				if nd.Pos() <= pos && end <= nd.End() {
					return b
				}
			}
		}
		return nil
	}
	var vblocks, scanBlocks []*cfg.Block
	var spreads []*cfg.Block
	ast.Inspect(fd.Body, func(m ast.Node) bool {
		switch x := m.(type) {
		case *ast.CallExpr:
			if validators[core.CalleeName(info, x)] && !underShortCircuit(fd.Body, x) {
				if b := blockOfPos(x.Pos(), x.End()); b != nil {
					vblocks = append(vblocks, b)
				}
			}
			if core.IsBuiltin(info, x, "append") && x.Ellipsis.IsValid() && len(x.Args) == 2 {
				if _, isParam := core.ObjOf(info, x.Args[1]).(*types.Var); isParam {
					if b := blockOfPos(x.Pos(), x.End()); b != nil {
						spreads = append(spreads, b)
					}
				}
			}
		case *ast.IndexExpr:
			if o := core.ObjOf(info, x.X); o != nil && (o.Name() == "floatTable" || o.Name() == "numTable") {
				if b := blockOfPos(x.Pos(), x.End()); b != nil {
					scanBlocks = append(scanBlocks, b)
				}
			}
		}
		return true
	})
	if len(vblocks) == 0 {
		return false
	}
	dominated := func(t *cfg.Block) bool {
		for _, vb := range vblocks {
			if vb == t || cf.Dominates(vb, t) {
				return true
			}
		}
		return false
	}
	if len(scanBlocks) == 0 {
		for _, t := range spreads {
			if !dominated(t) {
				return false
			}
		}
		return true
	}
	reach := map[*cfg.Block]bool{}
	for _, sb := range scanBlocks {
		for b := range cf.ReachableFrom(sb, nil) {
			reach[b] = true
		}
		reach[sb] = true
	}
	for _, r := range cf.Returns() {
		if core.ReturnIsError(info, r) {
			continue
		}
		if len(r.Results) > 0 && core.IsNilIdent(info, r.Results[0]) {
			continue // the nil token (null) carries no number
		}
		rb, _ := cf.BlockOf(r)
		if rb == nil || !reach[rb] {
			continue
		}
		if !dominated(rb) {
			return false
		}
	}
	return true
}

// callerValidatesEverySuccess: in a function that receives a number token from the scanner `scan` and calls a
// validator, every success return that can be reached behind the scanner call passes a validator call, except the
// returns for the nil token (the literal null: `if tok == nil { return … }`).
func callerValidatesEverySuccess(p *core.Program, fd *ast.FuncDecl, scan *types.Func, validators map[string]bool, tier string) (bool, string) {
	info := p.Info(fd)
	cf := core.BuildCFG(fd.Body, info)
	blockOfPos := func(pos, end token.Pos) *cfg.Block {
		for _, b := range cf.G.Blocks {
			for _, nd := range b.Nodes {
				if nd.Pos() <= pos && end <= nd.End() {
					return b
				}
			}
		}
		return nil
	}
	var vblocks, scanBlocks []*cfg.Block
	toks := map[types.Object]bool{}
	ast.Inspect(fd.Body, func(m ast.Node) bool {
		switch x := m.(type) {
		case *ast.CallExpr:
			if validators[core.CalleeName(info, x)] && !underShortCircuit(fd.Body, x) {
				if b := blockOfPos(x.Pos(), x.End()); b != nil {
					vblocks = append(vblocks, b)
				}
			}
			if f := core.Callee(info, x); f != nil && f.Origin() == scan {
				if b := blockOfPos(x.Pos(), x.End()); b != nil {
					scanBlocks = append(scanBlocks, b)
				}
			}
		case *ast.AssignStmt:
			if len(x.Rhs) == 1 {
				if c, ok := core.Unparen(x.Rhs[0]).(*ast.CallExpr); ok {
					if f := core.Callee(info, c); f != nil && f.Origin() == scan {
						for _, l := range x.Lhs {
							if o := core.ObjOf(info, l); o != nil && o.Type().String() == "[]byte" {
								toks[o] = true
							}
						}
					}
				}
			}
		}
		return true
	})
	if len(scanBlocks) == 0 || len(vblocks) == 0 {
		return len(scanBlocks) == 0, "no validator call"
	}
	reach := map[*cfg.Block]bool{}
	for _, sb := range scanBlocks {
		for b := range cf.ReachableFrom(sb, nil) {
			reach[b] = true
		}
	}
	for _, r := range cf.Returns() {
		if core.ReturnIsError(info, r) {
			continue
		}
		rb, _ := cf.BlockOf(r)
		if rb == nil || !reach[rb] {
			continue
		}
		// the return for the nil token
		forNil := false
		for _, cn := range condChainNodes(fd, r) {
			be, ok := core.Unparen(cn.cond).(*ast.BinaryExpr)
			if !ok || !cn.pos || be.Op != token.EQL {
				continue
			}
			if (toks[core.ObjOf(info, be.X)] && core.IsNilIdent(info, be.Y)) || (toks[core.ObjOf(info, be.Y)] && core.IsNilIdent(info, be.X)) {
				forNil = true
			}
		}
		if forNil {
			continue
		}
		ok := false
		for _, vb := range vblocks {
			if vb == rb || cf.Dominates(vb, rb) {
				ok = true
			}
		}
		if !ok {
			// a fast path: the return stands under `if …, ok := helper(tok); ok`. The helper is folded for every
			// token over the number alphabet: what it accepts has to be a number of RFC 8259.
			accepted, detail := fastPathAcceptsOnlyNumbers(p, fd, r, toks, tier)
			if !accepted {
				return false, detail
			}
		}
	}
	return true, ""
}

var rfc8259Number = regexp.MustCompile(`^-?(0|[1-9][0-9]*)(\.[0-9]+)?([eE][+-]?[0-9]+)?$`)

// fastPathAcceptsOnlyNumbers: the return r of fd stands under a condition `ok` that a helper of the module computed
// from the token alone (v, ok := helper(tok)). The helper is folded (whole function, the token bound to each string
// over 0 1 9 - + . e E x that begins like a token of the scanner) and every string it accepts is matched against the
// number grammar. Floating-point values inside the helper are not computed (they do not decide what is accepted).
func fastPathAcceptsOnlyNumbers(p *core.Program, fd *ast.FuncDecl, r *ast.ReturnStmt, toks map[types.Object]bool, tier string) (bool, string) {
	info := p.Info(fd)
	var helper *ast.FuncDecl
	for _, cn := range condChainNodes(fd, r) {
		id, ok := core.Unparen(cn.cond).(*ast.Ident)
		if !ok || !cn.pos {
			continue
		}
		okObj := core.ObjOf(info, id)
		ast.Inspect(fd.Body, func(m ast.Node) bool {
			as, isAs := m.(*ast.AssignStmt)
			if !isAs || len(as.Rhs) != 1 || len(as.Lhs) < 2 || core.ObjOf(info, as.Lhs[len(as.Lhs)-1]) != okObj {
				return true
			}
			c, isCall := core.Unparen(as.Rhs[0]).(*ast.CallExpr)
			if !isCall || len(c.Args) != 1 || !toks[core.ObjOf(info, c.Args[0])] {
				return true
			}
			if f := core.Callee(info, c); f != nil {
				if d := p.DeclOf(f); d != nil && d.Body != nil && d.Type.Params.NumFields() == 1 {
					helper = d
				}
			}
			return true
		})
	}
	if helper == nil {
		return false, "a fast path in front of it"
	}
	hinfo := p.Info(helper)
	arg := hinfo.Defs[helper.Type.Params.List[0].Names[0]]
	alphabet := []byte("019-+.eEx")
	maxLen := 5
	if tier == "thorough" {
		maxLen = 6
	}
	bp := &core.BytePred{P: p, Strings: map[types.Object][]byte{}}
	bad, undecided := "", ""
	var gen func(prefix []byte)
	gen = func(prefix []byte) {
		if bad != "" || undecided != "" {
			return
		}
		if len(prefix) > 0 {
			bp.Steps = 0
			bp.Strings[arg] = prefix
			_, _, done, ok := bp.ExecList(hinfo, helper.Body.List, core.BindAll(nil))
			if !ok || !done || len(bp.Results) == 0 {
				undecided = string(prefix)
				return
			}
			if bp.Results[len(bp.Results)-1] != 0 && !rfc8259Number.Match(prefix) {
				bad = string(prefix)
				return
			}
		}
		if len(prefix) == maxLen {
			return
		}
		for _, c := range alphabet {
			if len(prefix) == 0 && c != '-' && (c < '0' || c > '9') {
				continue // the scanners begin a token at a minus sign or a digit
			}
			gen(append(append([]byte{}, prefix...), c))
		}
	}
	gen(nil)
	name := p.FuncName(helper)
	switch {
	case undecided != "":
		return false, fmt.Sprintf("the fast path %s could not be folded for the token %q", name, undecided)
	case bad != "":
		return false, fmt.Sprintf("the fast path %s accepts the token %q, which is not a number of RFC 8259", name, bad)
	}
	return true, ""
}

// underShortCircuit: the call is the right operand (or inside the right operand) of a && or ||,
// so it is evaluated only for some values of the left operand (go/cfg keeps a whole condition in one node).
func underShortCircuit(root ast.Node, call *ast.CallExpr) bool {
	path := core.PathTo(root, call)
	for i := len(path) - 2; i >= 0; i-- {
		be, ok := path[i].(*ast.BinaryExpr)
		if !ok {
			if _, isStmt := path[i].(ast.Stmt); isStmt {
				return false
			}
			continue
		}
		if (be.Op == token.LAND || be.Op == token.LOR) && be.Y.Pos() <= call.Pos() && call.End() <= be.Y.End() {
			return true
		}
	}
	return false
}

// escapeValidated: n contains (or calls, two levels deep, a module function that contains) a byte
// switch with singleton clauses for 'u' and 'n', that is an escape-letter dispatch.
func escapeValidated(rc *core.RC, info *types.Info, n ast.Node, depth int) bool {
	found := false
	var callees []*types.Func
	ast.Inspect(n, func(m ast.Node) bool {
		switch x := m.(type) {
		case *ast.SwitchStmt:
			if bs, _ := core.EvalByteSwitch(info, x); bs != nil && bs.HasLabel('u') && bs.HasLabel('n') && bs.HasLabel('t') {
				found = true
			}
		case *ast.CallExpr:
			if f := core.Callee(info, x); f != nil && f.Pkg() != nil && strings.HasPrefix(f.Pkg().Path(), core.ModPath) {
				callees = append(callees, f)
			}
		}
		return true
	})
	if found || depth >= 2 {
		return found
	}
	for _, f := range callees {
		if fd := rc.P.DeclOf(f); fd != nil && fd.Body != nil && escapeValidated(rc, rc.P.Info(fd), fd.Body, depth+1) {
			return true
		}
	}
	return false
}

// ---- C05.R8 the position at which a nested decoder stopped is never thrown away ----

// Decoder.Decode returns the cursor behind what it consumed. A caller that discards it (the blank
// identifier) cannot know whether the nested decoder read all of the text it was given: the quoted
// text of a ,string field or of a non-string map key would be accepted with anything after the
// value ("12x" as 12). Every call of a Decode method with the decoder signature must bind its first
// result to a variable or return it.
func c05r8(rc *core.RC) {
	p := rc.P
	n := 0
	for _, pkg := range []string{"decoder", "json"} {
		for _, fd := range p.Funcs(pkg) {
			if fd.Body == nil {
				continue
			}
			info := p.Info(fd)
			fn := p.FuncName(fd)
			k := 0
			ast.Inspect(fd.Body, func(m ast.Node) bool {
				var call *ast.CallExpr
				var lhs []ast.Expr
				switch x := m.(type) {
				case *ast.AssignStmt:
					if len(x.Rhs) == 1 {
						call, _ = core.Unparen(x.Rhs[0]).(*ast.CallExpr)
						lhs = x.Lhs
					}
				case *ast.ExprStmt:
					call, _ = core.Unparen(x.X).(*ast.CallExpr)
				}
				if call == nil {
					return true
				}
				sel, ok := core.Unparen(call.Fun).(*ast.SelectorExpr)
				if !ok || sel.Sel.Name != "Decode" || len(call.Args) != 4 {
					return true
				}
				sig, ok := info.Types[call.Fun].Type.(*types.Signature)
				if !ok || sig.Results().Len() != 2 {
					return true
				}
				if b, isBasic := sig.Results().At(0).Type().Underlying().(*types.Basic); !isBasic || b.Kind() != types.Int64 {
					return true
				}
				n++
				k++
				rc.CallSites++
				rc.Touch(fn)
				key := fmt.Sprintf("%s/nested-decode#%d end-cursor-kept", fn, k)
				kept := len(lhs) == 2
				if kept {
					if id, isIdent := lhs[0].(*ast.Ident); isIdent && id.Name == "_" {
						kept = false
					}
				}
				rc.Check(kept, key, call.Pos(), "the cursor returned by %s is bound to a variable (Go then requires it to be used): what follows the nested value can be examined", core.Src(p.Fset, call.Fun))
				return true
			})
		}
	}
	if n < 12 {
		rc.Unknown("decoder/nested-decode-calls", token.NoPos, "found %d assigned Decode calls (15 confirmed)", n)
	}
}

// ---- C05.R9 an object key is read only where the input has a quote ----

// The decoders used for map keys (string, ,string-wrapped numbers, TextUnmarshaler) are value
// decoders: they accept the literal null. Where a map decoder hands the input to its key decoder,
// the byte at the cursor must have been tested to be a quote, or `{null:1}` is a valid document.
func c05r9(rc *core.RC) {
	p := rc.P
	n := 0
	for _, fd := range p.Funcs("decoder") {
		if fd.Body == nil {
			continue
		}
		info := p.Info(fd)
		fn := p.FuncName(fd)
		k := 0
		done := map[*ast.CallExpr]bool{}
		ast.Inspect(fd.Body, func(m ast.Node) bool {
			var call *ast.CallExpr
			var stmt ast.Stmt
			switch x := m.(type) {
			case *ast.AssignStmt:
				if len(x.Rhs) == 1 {
					call, _ = core.Unparen(x.Rhs[0]).(*ast.CallExpr)
					stmt = x
				}
			case *ast.IfStmt:
				if as, ok := x.Init.(*ast.AssignStmt); ok && len(as.Rhs) == 1 {
					call, _ = core.Unparen(as.Rhs[0]).(*ast.CallExpr)
					stmt = x
				}
			}
			if call == nil || done[call] {
				return true
			}
			done[call] = true
			sel, ok := core.Unparen(call.Fun).(*ast.SelectorExpr)
			if !ok {
				return true
			}
			switch sel.Sel.Name {
			case "Decode", "DecodeStream", "decodeByte", "decodeStreamByte":
			default:
				return true
			}
			// the receiver is the key decoder of a map decoder: the field itself or a local set from it
			recv := core.Unparen(sel.X)
			isKeyDec := false
			if f := core.FieldOf(info, recv); f != nil && f.Name() == "keyDecoder" {
				isKeyDec = true
			} else if id, isIdent := recv.(*ast.Ident); isIdent {
				def := core.ResolveSingleDef(info, fd.Body, id)
				// v, ok := d.keyDecoder.(*stringDecoder)
				obj := info.Uses[id]
				ast.Inspect(fd.Body, func(y ast.Node) bool {
					if as, isAssign := y.(*ast.AssignStmt); isAssign && len(as.Lhs) == 2 && len(as.Rhs) == 1 && obj != nil && core.ObjOf(info, as.Lhs[0]) == obj {
						def = as.Rhs[0]
					}
					return true
				})
				if ta, isAssert := core.Unparen(def).(*ast.TypeAssertExpr); isAssert {
					def = ta.X
				}
				if f := core.FieldOf(info, def); f != nil && f.Name() == "keyDecoder" {
					isKeyDec = true
				}
			}
			if !isKeyDec {
				return true
			}
			n++
			k++
			rc.CallSites++
			rc.Touch(fn)
			key := fmt.Sprintf("%s/key-decode#%d quote-tested", fn, k)
			rc.Check(quoteGuardBefore(info, fd.Body, stmt), key, call.Pos(), "the key decoder is called only after a test that returns unless the byte at the cursor is '\"'")
			return true
		})
	}
	if n < 3 {
		rc.Unknown("decoder/map-key-decodes", token.NoPos, "found %d calls of a map's key decoder (3 confirmed)", n)
	}
}

// quoteGuardBefore: an earlier statement of the same block is `if <byte> != '"' { …; return … }`.
func quoteGuardBefore(info *types.Info, body *ast.BlockStmt, stmt ast.Stmt) bool {
	path := core.PathTo(body, stmt)
	if len(path) < 2 {
		return false
	}
	blk, ok := path[len(path)-2].(*ast.BlockStmt)
	if !ok {
		return false
	}
	for _, st := range blk.List {
		if st == stmt {
			return false
		}
		ifs, isIf := st.(*ast.IfStmt)
		if !isIf || len(ifs.Body.List) == 0 {
			continue
		}
		if _, rets := ifs.Body.List[len(ifs.Body.List)-1].(*ast.ReturnStmt); !rets {
			continue
		}
		be, isBin := core.Unparen(ifs.Cond).(*ast.BinaryExpr)
		if !isBin || be.Op != token.NEQ {
			continue
		}
		if v, isConst := core.ConstInt(info, be.Y); isConst && v == '"' {
			if tv, has := info.Types[be.X]; has && isByte(tv.Type) {
				return true
			}
		}
	}
	return false
}

// ---- C05.R11 a nested decode of a sub-text must consume exactly that text ----

// Where a decoder runs another decoder over a text of its own from cursor 0 (the payload of a ,string field, a
// non-string map key), the end cursor that comes back has to be compared with the *length* of that text, with an
// error for any difference. Looking at the byte under the end cursor is not the same test: the unescaped payload can
// contain a NUL byte (\u0000), at which the number scanners stop.
func c05r11(rc *core.RC) {
	p := rc.P
	n := 0
	for _, fd := range p.Funcs("decoder") {
		if fd.Body == nil {
			continue
		}
		info := p.Info(fd)
		fn := p.FuncName(fd)
		k := 0
		ast.Inspect(fd.Body, func(m ast.Node) bool {
			as, ok := m.(*ast.AssignStmt)
			if !ok || len(as.Rhs) != 1 || len(as.Lhs) != 2 {
				return true
			}
			call, _ := core.Unparen(as.Rhs[0]).(*ast.CallExpr)
			if call == nil || len(call.Args) != 4 {
				return true
			}
			sel, isSel := core.Unparen(call.Fun).(*ast.SelectorExpr)
			if !isSel || sel.Sel.Name != "Decode" {
				return true
			}
			if v, isC := core.ConstInt(info, call.Args[1]); !isC || v != 0 {
				return true
			}
			end := core.ObjOf(info, as.Lhs[0])
			if end == nil {
				return true
			}
			n++
			k++
			rc.Touch(fn)
			key := fmt.Sprintf("%s/sub-text-decode#%d end-compared-with-length", fn, k)
			found := false
			ast.Inspect(fd.Body, func(x ast.Node) bool {
				ifs, isIf := x.(*ast.IfStmt)
				if !isIf || found {
					return true
				}
				be, isBin := core.Unparen(ifs.Cond).(*ast.BinaryExpr)
				if !isBin || (be.Op != token.NEQ && be.Op != token.LSS && be.Op != token.GTR) {
					return true
				}
				var other ast.Expr
				switch {
				case core.ObjOf(info, be.X) == end:
					other = be.Y
				case core.ObjOf(info, be.Y) == end:
					other = be.X
				default:
					return true
				}
				hasLen := false
				ast.Inspect(other, func(y ast.Node) bool {
					if c, isCall := y.(*ast.CallExpr); isCall && core.IsBuiltin(info, c, "len") {
						hasLen = true
					}
					return true
				})
				if !hasLen {
					return true
				}
				for _, st := range ifs.Body.List {
					if r, isRet := st.(*ast.ReturnStmt); isRet && core.ReturnIsError(info, r) {
						found = true
					}
				}
				return true
			})
			// the nested decoders skip white space in front of a value: the text must not begin with any
			lead := false
			ast.Inspect(fd.Body, func(x ast.Node) bool {
				ifs, isIf := x.(*ast.IfStmt)
				if !isIf || ifs.Pos() > call.Pos() {
					return true
				}
				tests := false
				ast.Inspect(ifs.Cond, func(y ast.Node) bool {
					ix, isIx := y.(*ast.IndexExpr)
					if !isIx {
						return true
					}
					if o := core.ObjOf(info, ix.X); o == nil || o.Name() != "isWhiteSpace" {
						return true
					}
					if in, isIn := core.Unparen(ix.Index).(*ast.IndexExpr); isIn {
						if v, isC := core.ConstInt(info, in.Index); isC && v == 0 {
							tests = true
						}
					}
					return true
				})
				if !tests {
					return true
				}
				for _, st := range ifs.Body.List {
					if r, isRet := st.(*ast.ReturnStmt); isRet && core.ReturnIsError(info, r) {
						lead = true
					}
				}
				return true
			})
			rc.Check(lead, fmt.Sprintf("%s/sub-text-decode#%d first-byte-not-white-space", fn, k), call.Pos(), "before the nested decode the first byte of the text is tested against the white space table, with an error exit: the nested decoders skip leading white space, so {\"A\":\" 1\"} would store 1 into a ,string int and \" 1\" would be an integer map key")
			rc.Check(found, key, call.Pos(), "the end cursor of the nested decode (%s) is compared with the length of the text it was run on, and a difference is an error (the byte under the cursor is no substitute: the payload \"12\\u0000.5\" holds a NUL at which the integer scanner stops, so {\"a\":\"12\\u0000.5\"} would store 12 into a ,string int)", end.Name())
			return true
		})
	}
	if n < 2 {
		rc.Unknown("decoder/sub-text-decodes", token.NoPos, "found %d nested Decode calls from cursor 0 (confirmed: wrappedStringDecoder.Decode and DecodeStream)", n)
	}
}

// ---- C05.R12 the number grammar, folded ----

// validNumber (decoder and encoder copies) is a pure scanner over the bytes of a token: an index, comparisons,
// three loops. It is folded for every string over the alphabet 0 1 9 - + . e E x up to a length bound and compared
// with the number production of RFC 8259: -?(0|[1-9][0-9]*)(\.[0-9]+)?([eE][+-]?[0-9]+)?. C05.R6 decides that the
// two copies are the same code; this rule decides that the code is the grammar.
func c05r12(rc *core.RC) {
	p := rc.P
	ref := regexp.MustCompile(`^-?(0|[1-9][0-9]*)(\.[0-9]+)?([eE][+-]?[0-9]+)?$`)
	alphabet := []byte("019-+.eEx")
	maxLen := 5
	if rc.Tier == "thorough" {
		maxLen = 6
	}
	n := 0
	for _, short := range []string{"decoder", "encoder"} {
		fd := p.Func(short, "validNumber")
		key := short + ".validNumber/is-the-RFC-8259-number-grammar"
		if fd == nil || fd.Body == nil || fd.Type.Params.NumFields() != 1 {
			rc.Unknown(key, token.NoPos, "not found")
			continue
		}
		n++
		rc.Touch(short + ".validNumber")
		info := p.Info(fd)
		arg := info.Defs[fd.Type.Params.List[0].Names[0]]
		bp := &core.BytePred{P: p, Strings: map[types.Object][]byte{}}
		var wrongAccept, wrongReject []string
		count := 0
		var gen func(prefix []byte)
		undecided := ""
		gen = func(prefix []byte) {
			if undecided != "" {
				return
			}
			bp.Steps = 0
			bp.Strings[arg] = prefix
			got, isBool, done, ok := bp.ExecList(info, fd.Body.List, core.BindAll(nil))
			if !ok || !done || !isBool {
				undecided = string(prefix)
				return
			}
			count++
			want := ref.Match(prefix)
			if got && !want && len(wrongAccept) < 8 {
				wrongAccept = append(wrongAccept, string(prefix))
			}
			if !got && want && len(wrongReject) < 8 {
				wrongReject = append(wrongReject, string(prefix))
			}
			if len(prefix) == maxLen {
				return
			}
			for _, c := range alphabet {
				gen(append(append([]byte{}, prefix...), c))
			}
		}
		gen(nil)
		if undecided != "" {
			rc.Unknown(key, fd.Pos(), "validNumber could not be folded for %q (a construct outside assignments, if, for, switch and comparisons)", undecided)
			continue
		}
		rc.Check(len(wrongAccept) == 0 && len(wrongReject) == 0, key, fd.Pos(), "%s.validNumber, folded for the %d strings over 019-+.eEx of length up to %d, accepts exactly the numbers of RFC 8259; wrongly accepted: %q, wrongly rejected: %q", short, count, maxLen, wrongAccept, wrongReject)
	}
	if n < 2 {
		rc.Unknown("validNumber/copies", token.NoPos, "found %d of the two copies of validNumber", n)
	}
}

// ---- C05.R13 who may call the mid-container skippers ----

// skipObject and skipArray (buffer and stream forms) enter a container behind its opening bracket and step over the
// rest with the lax scanners: nothing is stored, numbers are not validated, keys are not looked up, duplicate and
// unknown keys pass. Only two kinds of caller may do that: skipValue (the caller of which decided to ignore the whole
// value) and the exit of the struct decoder taken under the FirstWin option when every field has been seen. A typed
// decoder that hands the rest of its input to them accepts what encoding/json rejects and skips what it stores.
func c05r13(rc *core.RC) {
	p := rc.P
	// (until round 13 the struct decoder left for skipObject under the FirstWin option once every field had been
	// seen: the byte behind the last value and everything after it went unchecked, `{"A":1.5}` set A to 1)
	allowed := map[string]string{
		"decoder.skipValue":           "",
		"decoder.(*Stream).skipValue": "",
	}
	n := 0
	for _, fd := range p.Funcs("decoder") {
		if fd.Body == nil {
			continue
		}
		info := p.Info(fd)
		fn := p.FuncName(fd)
		k := 0
		ast.Inspect(fd.Body, func(x ast.Node) bool {
			call, ok := x.(*ast.CallExpr)
			if !ok {
				return true
			}
			callee := core.Callee(info, call)
			if callee == nil || callee.Pkg() == nil || callee.Pkg().Name() != "decoder" || (callee.Name() != "skipObject" && callee.Name() != "skipArray") {
				return true
			}
			if fn == "decoder.skipObject" || fn == "decoder.skipArray" || fn == "decoder.(*Stream).skipObject" || fn == "decoder.(*Stream).skipArray" {
				return true // the skippers recurse into each other
			}
			n++
			k++
			rc.CallSites++
			rc.Touch(fn)
			key := fmt.Sprintf("%s/calls %s#%d may-skip-mid-container", fn, callee.Name(), k)
			need, ok := allowed[fn]
			if !ok {
				rc.Bad(key, call.Pos(), "%s hands the rest of a container to %s: the lax scanner stores nothing and validates neither numbers nor keys; only skipValue may (members that a typed decoder has to store or reject are stepped over, and what follows the last value is not looked at)", fn, callee.Name())
				return true
			}
			if need == "" {
				rc.OK(key, call.Pos(), "%s is the skipper of whole values", fn)
				return true
			}
			under := false
			for _, c := range condChain(p, info, fd, call) {
				if c.pos && strings.Contains(c.text, need) {
					under = true
				}
			}
			rc.Check(under, key, call.Pos(), "%s calls %s only under the FirstWin option (every field seen, the rest is ignored by definition of the option)", fn, callee.Name())
			return true
		})
	}
	if n < 4 {
		rc.Unknown("decoder/mid-container-skippers", token.NoPos, "found %d calls of skipObject/skipArray outside the skippers (confirmed: 4)", n)
	}
}

// ---- C05.R14 unquoteBytes says yes only behind its own scan for control characters ----

// For a TextUnmarshaler destination the skippers only find the end of the string literal; unquoteBytes is what
// looks at its bytes. Its scan loop stops at a backslash, a quote, a byte below 0x20 and malformed UTF-8. Every
// `return …, true` of the function has to come behind a loop that makes the control-character test: a shortcut in
// front of it ("no backslash and valid UTF-8: nothing to do") hands raw tabs and line feeds to UnmarshalText, which
// encoding/json rejects.
func c05r14(rc *core.RC) {
	p := rc.P
	fd := p.Func("decoder", "unquoteBytes")
	if fd == nil || fd.Body == nil {
		rc.Unknown("decoder.unquoteBytes", token.NoPos, "function not found")
		return
	}
	info := p.Info(fd)
	fn := p.FuncName(fd)
	rc.Touch(fn)
	// the first loop that compares a byte with ' ' (or 0x20)
	firstScan := token.NoPos
	ast.Inspect(fd.Body, func(m ast.Node) bool {
		loop, ok := m.(*ast.ForStmt)
		if !ok || firstScan.IsValid() {
			return true
		}
		ast.Inspect(loop.Body, func(k ast.Node) bool {
			if be, isBin := k.(*ast.BinaryExpr); isBin && be.Op == token.LSS {
				if v, isC := core.ConstInt(info, be.Y); isC && v == ' ' {
					firstScan = loop.Pos()
				}
			}
			return true
		})
		return true
	})
	if !firstScan.IsValid() {
		rc.Unknown(fn+"/control-character-scan", fd.Pos(), "no loop that tests bytes against 0x20 found")
		return
	}
	n := 0
	ast.Inspect(fd.Body, func(m ast.Node) bool {
		ret, ok := m.(*ast.ReturnStmt)
		if !ok || len(ret.Results) != 2 {
			return true
		}
		if v := core.ConstValue(info, ret.Results[1]); v == nil || v.String() != "true" {
			return true
		}
		n++
		key := fmt.Sprintf("%s/accepting-return#%d behind-the-control-character-scan", fn, n)
		rc.Check(ret.Pos() > firstScan, key, ret.Pos(), "the function answers ok only behind the loop that stops at bytes below 0x20: an accepting return in front of it lets raw control characters through to UnmarshalText")
		return true
	})
	if n < 1 {
		rc.Unknown(fn+"/accepting-returns", fd.Pos(), "no return with ok = true found")
	}
}

// ---- C05.R16 the literal validators compare every letter of their literal ----

// validateTrue, validateFalse and validateNull (buffer mode) are entered with the cursor on the first letter; the
// callers step over the whole literal when they return nil. Obligation, for each of the three: the tests
// `buf[cursor+k] != 'c'` that leave with an error are exactly one per letter behind the first, at the letter's own
// offset and with the letter itself (a test that is missing or looks at a neighbour's place lets `nuxl` pass for null).
func c05r16(rc *core.RC) {
	p := rc.P
	for _, lit := range []struct{ fn, text string }{{"validateTrue", "true"}, {"validateFalse", "false"}, {"validateNull", "null"}} {
		fd := p.Func("decoder", lit.fn)
		key := "decoder." + lit.fn + "/every-letter-compared"
		if fd == nil || fd.Body == nil {
			rc.Unknown(key, token.NoPos, "function not found")
			continue
		}
		rc.Touch(p.FuncName(fd))
		info := p.Info(fd)
		cf := core.BuildCFGFor(fd, info)
		got := map[int64][]int64{}
		ast.Inspect(fd.Body, func(m ast.Node) bool {
			ifs, ok := m.(*ast.IfStmt)
			if !ok || len(ifs.Body.List) == 0 {
				return true
			}
			r, isRet := ifs.Body.List[len(ifs.Body.List)-1].(*ast.ReturnStmt)
			if !isRet || !cf.IsFailure(r) {
				return true
			}
			for _, d := range disjuncts(ifs.Cond) {
				be, isB := core.Unparen(d).(*ast.BinaryExpr)
				if !isB || be.Op != token.NEQ {
					continue
				}
				c, isC := core.ConstInt(info, be.Y)
				if !isC {
					continue
				}
				if _, k, okA := accessOffset(info, be.X); okA {
					got[k] = append(got[k], c)
				}
			}
			return true
		})
		if len(got) == 0 {
			rc.Unknown(key, fd.Pos(), "no comparison of a byte behind the cursor with a constant that leaves with an error was recognised")
			continue
		}
		var wrong []string
		for k := 1; k < len(lit.text); k++ {
			cs := got[int64(k)]
			has := false
			for _, c := range cs {
				if c == int64(lit.text[k]) {
					has = true
				} else {
					wrong = append(wrong, fmt.Sprintf("offset %d is compared with %q, the literal has %q there", k, rune(c), rune(lit.text[k])))
				}
			}
			if !has {
				wrong = append(wrong, fmt.Sprintf("the letter %q at offset %d is not compared", rune(lit.text[k]), k))
			}
		}
		for k := range got {
			if k < 1 || k >= int64(len(lit.text)) {
				wrong = append(wrong, fmt.Sprintf("a byte at offset %d, outside the literal, is compared", k))
			}
		}
		sort.Strings(wrong)
		if len(wrong) == 0 {
			rc.OK(key, fd.Pos(), "the %d letters behind the first are compared one by one with %q", len(lit.text)-1, lit.text[1:])
		} else {
			rc.Bad(key, fd.Pos(), "%s accepts texts that are not %q (the callers step over %d bytes and take the value for the literal): %s", lit.fn, lit.text, len(lit.text), strings.Join(wrong, "; "))
		}
	}
}
