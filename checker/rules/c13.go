package rules

import (
	"fmt"
	"go/ast"
	"go/constant"
	"go/parser"
	"go/token"
	"go/types"
	"os"
	"path/filepath"
	"sort"
	"strings"

	"verif/checker/core"
)

// opClauses returns the case clauses of the opcode switch of vm.Run keyed by
// the sorted list of their labels.
func opClauses(rc *core.RC, vm string, t *opTable) (map[string]*ast.CaseClause, *ast.SwitchStmt) {
	_, sw := vmCases(rc, vm, t)
	if sw == nil {
		return nil, nil
	}
	out := map[string]*ast.CaseClause{}
	for _, st := range sw.Body.List {
		cc := st.(*ast.CaseClause)
		out[clauseLabel(cc)] = cc
	}
	return out, sw
}

func clauseLabel(cc *ast.CaseClause) string {
	if len(cc.List) == 0 {
		return "default"
	}
	var ls []string
	for _, e := range cc.List {
		switch x := e.(type) {
		case *ast.SelectorExpr:
			ls = append(ls, x.Sel.Name)
		case *ast.Ident:
			ls = append(ls, x.Name)
		default:
			ls = append(ls, "?")
		}
	}
	return strings.Join(ls, ",")
}

func c13r1(rc *core.RC) {
	p := rc.P
	t := loadOpTable(rc)
	if t == nil {
		return
	}
	ref, refSw := opClauses(rc, "vm", t)
	if ref == nil {
		return
	}
	refInfo := p.Pkg("vm").TypesInfo
	refNorm := map[string]string{}
	for k, cc := range ref {
		refNorm[k] = core.NormalNode(p.Fset, refInfo, cc, core.NormOpts{})
	}
	for _, vm := range core.VMPkgs[1:] {
		cl, sw := opClauses(rc, vm, t)
		if cl == nil {
			continue
		}
		info := p.Pkg(vm).TypesInfo
		var keys []string
		for k := range ref {
			keys = append(keys, k)
		}
		sort.Strings(keys)
		for _, k := range keys {
			key := fmt.Sprintf("%s.Run/case %s/same-as-vm", vm, k)
			cc := cl[k]
			if cc == nil {
				rc.Bad(key, sw.Pos(), "vm.Run has a clause for %s that %s.Run lacks", k, vm)
				continue
			}
			n := core.NormalNode(p.Fset, info, cc, core.NormOpts{})
			if n == refNorm[k] {
				rc.OK(key, cc.Pos(), "identical normal form")
			} else {
				rc.Bad(key, cc.Pos(), "the handler differs from vm.Run's handler for the same opcode (normal forms differ at byte %d): the variants no longer describe the same document", diffAt(n, refNorm[k]))
			}
		}
		for k, cc := range cl {
			if ref[k] == nil {
				rc.Bad(fmt.Sprintf("%s.Run/case %s/same-as-vm", vm, k), cc.Pos(), "%s.Run has a clause that vm.Run lacks", vm)
			}
		}
	}
	// the function outside the switch (prologue, epilogue) must agree as well
	whole := map[string]string{}
	for _, vm := range core.VMPkgs {
		fd := p.Func(vm, "Run")
		if fd == nil {
			continue
		}
		// normal form of Run with the switch body removed
		_, sw := vmCases(rc, vm, t)
		saved := sw.Body.List
		sw.Body.List = nil
		whole[vm] = core.NormalNode(p.Fset, p.Pkg(vm).TypesInfo, fd.Body, core.NormOpts{})
		sw.Body.List = saved
	}
	for _, vm := range core.VMPkgs[1:] {
		rc.Check(whole[vm] == whole["vm"], vm+".Run/frame", token.NoPos, "prologue and epilogue of Run equal vm.Run's")
	}
	// the template the four files are printed from
	tmpl := filepath.Join(p.Dir, "internal", "cmd", "generator", "vm.go.tmpl")
	src, err := os.ReadFile(tmpl)
	if err != nil {
		rc.Unknown("generator/vm.go.tmpl", token.NoPos, "template not readable: %v", err)
		return
	}
	fset := token.NewFileSet()
	f, err := parser.ParseFile(fset, tmpl, src, 0)
	if err != nil {
		rc.Unknown("generator/vm.go.tmpl", token.NoPos, "template does not parse as Go: %v", err)
		return
	}
	var tRun *ast.FuncDecl
	for _, d := range f.Decls {
		if fd, ok := d.(*ast.FuncDecl); ok && fd.Name.Name == "Run" {
			tRun = fd
		}
	}
	vmRun := p.Func("vm", "Run")
	if tRun == nil || vmRun == nil {
		rc.Unknown("generator/vm.go.tmpl/Run", token.NoPos, "Run not found in template")
		return
	}
	a := core.NormalNode(fset, nil, tRun.Body, core.NormOpts{KeepNames: true})
	b := core.NormalNode(p.Fset, nil, vmRun.Body, core.NormOpts{KeepNames: true})
	rc.Check(a == b, "generator/vm.go.tmpl/Run", refSw.Pos(), "the template's Run equals vm.Run (regenerating would not change the interpreters)")
}

func diffAt(a, b string) int {
	for i := 0; i < len(a) && i < len(b); i++ {
		if a[i] != b[i] {
			return i
		}
	}
	if len(a) < len(b) {
		return len(a)
	}
	return len(b)
}

// ---- C13.R2 marshaler helper twins ----

func c13r2(rc *core.RC) {
	p := rc.P
	info := p.Pkg("encoder").TypesInfo
	isFormatter := func(_ *types.Info, s ast.Stmt) bool {
		found := false
		ast.Inspect(s, func(n ast.Node) bool {
			if c, ok := n.(*ast.CallExpr); ok {
				switch core.CalleeName(info, c) {
				case "encoder.compact", "encoder.doIndent":
					found = true
				}
			}
			return true
		})
		_, isAssign := s.(*ast.AssignStmt)
		return found && isAssign
	}
	for _, pair := range [][2]string{{"AppendMarshalJSON", "AppendMarshalJSONIndent"}, {"AppendMarshalText", "AppendMarshalTextIndent"}} {
		a, b := p.Func("encoder", pair[0]), p.Func("encoder", pair[1])
		key := "encoder." + pair[1] + "/twin-of-" + pair[0]
		if a == nil || b == nil {
			rc.Unknown(key, token.NoPos, "twin not found")
			continue
		}
		rc.Touch("encoder." + pair[0])
		rc.Touch("encoder." + pair[1])
		opt := core.NormOpts{DropStmt: isFormatter}
		na := core.NormalStmts(p.Fset, info, a.Body.List, opt)
		nb := core.NormalStmts(p.Fset, info, b.Body.List, opt)
		if d := core.FirstDiff(na, nb); d >= 0 {
			x, y := "<end>", "<end>"
			if d < len(na) {
				x = na[d]
			}
			if d < len(nb) {
				y = nb[d]
			}
			rc.Bad(key, b.Pos(), "apart from the formatter call the twins must take the same decisions (address-of, nil test, interface assertion, context/query propagation, error wrapping); statement %d differs: %q vs %q", d, core.Clip(x, 140), core.Clip(y, 140))
		} else {
			rc.OK(key, b.Pos(), "%d statements equal apart from the formatter call", len(na))
		}
	}
}

// ---- C13.R4 dispatch matrix ----

func c13r4(rc *core.RC) {
	p := rc.P
	for _, spec := range []struct {
		fn     string
		indent bool
	}{{"encodeRunCode", false}, {"encodeRunIndentCode", true}} {
		fd := p.Func("json", spec.fn)
		if fd == nil {
			rc.Unknown("json."+spec.fn, token.NoPos, "dispatcher not found")
			continue
		}
		rc.Touch("json." + spec.fn)
		n := 0
		// walk follows helpers of package json called in return position: the options tested on the way to the helper
		// still hold inside it
		var walk func(fd *ast.FuncDecl, debug, color bool, via string, depth int)
		walk = func(fd *ast.FuncDecl, debug0, color0 bool, via string, depth int) {
			info := p.Info(fd)
			ast.Inspect(fd.Body, func(x ast.Node) bool {
				ret, ok := x.(*ast.ReturnStmt)
				if !ok || len(ret.Results) != 1 {
					return true
				}
				call, ok := ret.Results[0].(*ast.CallExpr)
				if !ok {
					return true
				}
				callee := core.Callee(info, call)
				if callee == nil || callee.Pkg() == nil {
					return true
				}
				chain := condChain(p, info, fd, ret)
				debug, color := debug0, color0
				// conditions that always return make later code run under their negation
				for _, c := range chain {
					if strings.Contains(c.text, "DebugOption") && c.pos {
						debug = true
					}
					if strings.Contains(c.text, "ColorizeOption") && c.pos {
						color = true
					}
				}
				if callee.Pkg().Name() == "json" && depth < 3 {
					if h := p.Func("json", callee.Name()); h != nil && h.Body != nil && h != fd {
						rc.Touch("json." + callee.Name())
						walk(h, debug, color, via+callee.Name()+">", depth+1)
						return true
					}
				}
				n++
				rc.CallSites++
				want := "vm"
				if color {
					want += "_color"
				}
				if spec.indent {
					want += "_indent"
				}
				wantFn := "Run"
				if debug {
					wantFn = "DebugRun"
				}
				key := fmt.Sprintf("json.%s/debug=%v,color=%v", spec.fn, debug, color)
				rc.Check(callee.Pkg().Name() == want && callee.Name() == wantFn, key, call.Pos(), "%scalls %s.%s; the option combination names %s.%s", via, callee.Pkg().Name(), callee.Name(), want, wantFn)
				return true
			})
		}
		walk(fd, false, false, "", 0)
		if n != 4 {
			rc.Unknown("json."+spec.fn+"/matrix", fd.Pos(), "expected 4 dispatch returns, found %d", n)
		}
	}
}

// ---- C13.R5 entry-point defaults ----

func c13r5(rc *core.RC) {
	p := rc.P
	n := 0
	for _, fd := range p.Funcs("json") {
		if fd.Body == nil {
			continue
		}
		info := p.Info(fd)
		takes := false
		ast.Inspect(fd.Body, func(x ast.Node) bool {
			if c, ok := x.(*ast.CallExpr); ok && core.CalleeName(info, c) == "encoder.TakeRuntimeContext" {
				takes = true
			}
			return true
		})
		if !takes {
			continue
		}
		n++
		fn := p.FuncName(fd)
		rc.Touch(fn)
		// flag writes in this function and in the unexported helper it delegates to (Encoder.encodeWithOption)
		type write struct {
			pos   token.Pos
			tok   token.Token
			flags map[string]bool
			zero  bool
			cond  bool
		}
		var writes []write
		var optLoop token.Pos
		collect := func(d *ast.FuncDecl, base token.Pos) {
			dinfo := p.Info(d)
			ast.Inspect(d.Body, func(x ast.Node) bool {
				switch s := x.(type) {
				case *ast.AssignStmt:
					if len(s.Lhs) != 1 {
						return true
					}
					// *ctx.Option = encoder.Option{} resets the flags together with every other option
					if st, ok := core.Unparen(s.Lhs[0]).(*ast.StarExpr); ok && len(s.Rhs) == 1 {
						if cl, ok := core.Unparen(s.Rhs[0]).(*ast.CompositeLit); ok && len(cl.Elts) == 0 {
							if t := types.Unalias(dinfo.Types[st].Type); strings.HasSuffix(t.String(), "internal/encoder.Option") {
								writes = append(writes, write{pos: s.Pos(), tok: token.ASSIGN, flags: map[string]bool{}, zero: true})
								return true
							}
						}
					}
					if f := core.FieldOf(dinfo, s.Lhs[0]); f == nil || f.Name() != "Flag" {
						return true
					}
					w := write{pos: s.Pos(), tok: s.Tok, flags: map[string]bool{}}
					if v, ok := core.ConstInt(dinfo, s.Rhs[0]); ok && v == 0 {
						w.zero = true
					}
					ast.Inspect(s.Rhs[0], func(k ast.Node) bool {
						if id, ok := k.(*ast.Ident); ok {
							if c, ok := dinfo.Uses[id].(*types.Const); ok && strings.HasSuffix(c.Name(), "Option") {
								w.flags[c.Name()] = true
							}
						}
						return true
					})
					w.cond = len(condChain(p, dinfo, d, s)) > 0
					if d != fd {
						w.pos = base // helper writes happen at the call position
					}
					writes = append(writes, w)
				case *ast.RangeStmt:
					if optLoop == token.NoPos && d == fd {
						optLoop = s.Pos()
					}
				}
				return true
			})
		}
		collect(fd, token.NoPos)
		ast.Inspect(fd.Body, func(x ast.Node) bool {
			if c, ok := x.(*ast.CallExpr); ok {
				if callee := core.Callee(info, c); callee != nil && callee.Pkg() != nil && callee.Pkg().Path() == core.ModPath && !callee.Exported() {
					if d := p.DeclOf(callee); d != nil && d.Body != nil && strings.Contains(strings.ToLower(callee.Name()), "option") {
						collect(d, c.Pos())
					}
				}
			}
			return true
		})
		sort.Slice(writes, func(i, j int) bool { return writes[i].pos < writes[j].pos })
		if len(writes) == 0 || !writes[0].zero || writes[0].tok != token.ASSIGN {
			rc.Bad(fn+"/flag-reset", fd.Pos(), "the pooled option flags are not reset (`Flag = 0`) before anything else: options of an earlier call leak into this one")
			continue
		}
		rc.OK(fn+"/flag-reset", writes[0].pos, "Flag = 0 first")
		all := map[string]bool{}
		for _, w := range writes[1:] {
			for f := range w.flags {
				all[f] = true
			}
		}
		rc.Check(all["NormalizeUTF8Option"], fn+"/default NormalizeUTF8Option", fd.Pos(), "UTF-8 normalisation is on by default")
		rc.Check(all["HTMLEscapeOption"], fn+"/default HTMLEscapeOption", fd.Pos(), "HTML escaping is on by default (the Encoder sets it under its own switch)")
		allowed := map[string]bool{"NormalizeUTF8Option": true, "HTMLEscapeOption": true}
		lname := strings.ToLower(fd.Name.Name)
		if strings.Contains(lname, "context") {
			allowed["ContextOption"] = true
			rc.Check(all["ContextOption"], fn+"/default ContextOption", fd.Pos(), "the context entry sets ContextOption")
		}
		if strings.Contains(lname, "indent") {
			allowed["IndentOption"] = true
			rc.Check(all["IndentOption"], fn+"/default IndentOption", fd.Pos(), "the indent entry sets IndentOption")
		}
		for f := range all {
			rc.Check(allowed[f], fn+"/extra "+f, fd.Pos(), "entry point sets %s by default; only the flags that name the entry may be set before caller options", f)
		}
	}
	if n < 5 {
		rc.Unknown("json/encode-entry-points", token.NoPos, "only %d functions take an encoder RuntimeContext (confirmed: 6)", n)
	}
}

// ---- C13.R3 colour wrappers are pure brackets ----

func c13r3(rc *core.RC) {
	p := rc.P
	for _, pair := range [][2]string{{"vm", "vm_color"}, {"vm_indent", "vm_color_indent"}} {
		plain, col := pair[0], pair[1]
		ppk, cpk := p.Pkg(plain), p.Pkg(col)
		if ppk == nil || cpk == nil {
			rc.Unknown(col, token.NoPos, "package not found")
			continue
		}
		// helpers that are aliases of encoder functions in the plain package
		for _, name := range ppk.Types.Scope().Names() {
			_, ptarget := vmAlias(rc, plain, name)
			pobj, isVar := ppk.Types.Scope().Lookup(name).(*types.Var)
			if !isVar || ptarget == nil || pobj == nil {
				continue
			}
			cd, _ := vmAlias(rc, col, name)
			key := fmt.Sprintf("%s.%s/brackets", col, name)
			if cd == nil {
				rc.Unknown(key, token.NoPos, "colour package has no %s", name)
				continue
			}
			if p.PkgOfDecl(cd) != cpk {
				rc.OK(key, cd.Pos(), "alias of the same encoder function as in %s", plain)
				continue
			}
			rc.Touch(col + "." + name)
			info := p.Info(cd)
			// shape: format := ctx.Option.ColorScheme.X ; append Header ; call encoder.<same> ; append Footer on each non-error return
			var fmtObj types.Object
			header, footer, callsSame := 0, 0, false
			otherFormat := false
			ast.Inspect(cd.Body, func(n ast.Node) bool {
				switch x := n.(type) {
				case *ast.AssignStmt:
					if len(x.Lhs) == 1 && len(x.Rhs) == 1 {
						if _, path := core.FieldPath(info, x.Rhs[0]); strings.HasPrefix(path, "Option.ColorScheme.") {
							if fmtObj != nil {
								otherFormat = true
							}
							fmtObj = core.ObjOf(info, x.Lhs[0])
						}
					}
				case *ast.CallExpr:
					if f := core.Callee(info, x); f != nil && f == ptarget {
						callsSame = true
					}
					if core.IsBuiltin(info, x, "append") && len(x.Args) == 2 && x.Ellipsis.IsValid() {
						if sel, ok := core.Unparen(x.Args[1]).(*ast.SelectorExpr); ok && core.ObjOf(info, sel.X) == fmtObj && fmtObj != nil {
							switch sel.Sel.Name {
							case "Header":
								header++
							case "Footer":
								footer++
							}
						}
					}
				}
				return true
			})
			ok := fmtObj != nil && !otherFormat && header == 1 && footer >= 1 && callsSame
			rc.Check(ok, key, cd.Pos(), "wrapper takes one ColorScheme format, appends its Header once, calls %s (the function %s.%s aliases) and appends the same format's Footer (header=%d footer=%d sameCallee=%v)", core.FuncObjName(ptarget), plain, name, header, footer, callsSame)
		}
	}
}

// ---- C13.R6 indentation depth is always BaseIndent + code.Indent ----

// combinedWithBase reports whether the use of expression `use` (an Opcode.Indent
// read, a parameter or a local derived from one) inside fd is combined with
// RuntimeContext.BaseIndent: in one additive expression with a BaseIndent read,
// assigned into BaseIndent, passed to a parameter that is itself combined, or
// defining a local all of whose uses are combined.
func combinedWithBase(rc *core.RC, fd *ast.FuncDecl, use ast.Expr, depth int) (bool, string) {
	p := rc.P
	info := p.Info(fd)
	path := core.PathTo(fd.Body, use)
	if path == nil {
		return false, "use not found"
	}
	isBase := func(e ast.Expr) bool {
		found := false
		ast.Inspect(e, func(n ast.Node) bool {
			if sel, ok := n.(*ast.SelectorExpr); ok {
				if f := core.FieldOf(info, sel); f != nil && f.Name() == "BaseIndent" {
					found = true
				}
			}
			return true
		})
		return found
	}
	// climb through arithmetic
	i := len(path) - 1
	var top ast.Expr = use
	for i > 0 {
		switch par := path[i-1].(type) {
		case *ast.ParenExpr:
			top = par
		case *ast.BinaryExpr:
			if par.Op != token.ADD && par.Op != token.SUB {
				goto done
			}
			top = par
		case *ast.CallExpr:
			// conversion T(x)
			if tv, ok := info.Types[par.Fun]; ok && tv.IsType() && len(par.Args) == 1 {
				top = par
			} else {
				goto done
			}
		default:
			goto done
		}
		i--
	}
done:
	if isBase(top) {
		return true, "added to BaseIndent"
	}
	if i == 0 {
		return false, "expression " + core.Src(p.Fset, top) + " is not combined with BaseIndent"
	}
	switch par := path[i-1].(type) {
	case *ast.AssignStmt:
		for k, l := range par.Lhs {
			if f := core.FieldOf(info, l); f != nil && f.Name() == "BaseIndent" {
				return true, "assigned into BaseIndent"
			}
			// local definition: all its uses
			if k < len(par.Rhs) && par.Rhs[k] == top {
				obj := core.ObjOf(info, l)
				if obj == nil || depth > 3 {
					break
				}
				all, why := true, ""
				n := 0
				ast.Inspect(fd.Body, func(m ast.Node) bool {
					id, ok := m.(*ast.Ident)
					if !ok || info.Uses[id] != obj {
						return true
					}
					n++
					if ok2, w := combinedWithBase(rc, fd, id, depth+1); !ok2 {
						all, why = false, w
					}
					return true
				})
				if n > 0 && all {
					return true, "local whose every use is combined with BaseIndent"
				}
				if n == 0 {
					return false, "value is dropped"
				}
				return false, why
			}
		}
	case *ast.CallExpr:
		idx := -1
		for k, a := range par.Args {
			if a == top {
				idx = k
			}
		}
		obj := calledIdent(info, par)
		var cd *ast.FuncDecl
		switch o := obj.(type) {
		case *types.Func:
			cd = p.DeclOf(o)
		case *types.Var:
			for short, pth := range core.PkgPaths {
				if o.Pkg() != nil && pth == o.Pkg().Path() {
					cd, _ = vmAlias(rc, short, o.Name())
				}
			}
		}
		if cd == nil || cd.Body == nil || idx < 0 || depth > 3 {
			return false, "passed to " + core.Src(p.Fset, par.Fun) + ", which cannot be inspected"
		}
		cinfo := p.Info(cd)
		var prm types.Object
		k := 0
		for _, f := range cd.Type.Params.List {
			for _, nm := range f.Names {
				if k == idx {
					prm = cinfo.Defs[nm]
				}
				k++
			}
		}
		if prm == nil {
			return false, "parameter not found"
		}
		all, why, n := true, "", 0
		ast.Inspect(cd.Body, func(m ast.Node) bool {
			id, ok := m.(*ast.Ident)
			if !ok || cinfo.Uses[id] != prm {
				return true
			}
			n++
			if ok2, w := combinedWithBase(rc, cd, id, depth+1); !ok2 {
				all, why = false, w
			}
			return true
		})
		if n > 0 && all {
			return true, "passed to " + p.FuncName(cd) + ", which adds BaseIndent"
		}
		return false, "passed to " + p.FuncName(cd) + ": " + why
	}
	return false, "expression " + core.Src(p.Fset, top) + " is used without BaseIndent"
}

func c13r6(rc *core.RC) {
	p := rc.P
	n := 0
	compileFiles := map[string]bool{"code.go": true, "compiler.go": true, "opcode.go": true, "compiler_norace.go": true, "compiler_race.go": true}
	for _, short := range append([]string{"encoder"}, core.VMPkgs...) {
		for _, fd := range p.Funcs(short) {
			if fd.Body == nil || (short == "encoder" && compileFiles[p.FileBase(fd.Pos())]) {
				continue
			}
			info := p.Info(fd)
			// reads of Opcode.Indent (not writes)
			lhs := map[ast.Expr]bool{}
			ast.Inspect(fd.Body, func(m ast.Node) bool {
				if as, ok := m.(*ast.AssignStmt); ok {
					for _, l := range as.Lhs {
						lhs[l] = true
					}
				}
				return true
			})
			ast.Inspect(fd.Body, func(m ast.Node) bool {
				sel, ok := m.(*ast.SelectorExpr)
				if !ok || lhs[sel] {
					return true
				}
				f := core.FieldOf(info, sel)
				if f == nil || f.Name() != "Indent" {
					return true
				}
				if nt, ok := info.Selections[sel].Recv().(*types.Pointer); !ok || !strings.HasSuffix(nt.Elem().String(), "encoder.Opcode") {
					return true
				}
				n++
				rc.Touch(p.FuncName(fd))
				key := fmt.Sprintf("%s/indent-depth %s", p.FuncName(fd), core.Src(p.Fset, sel))
				ok2, why := combinedWithBase(rc, fd, sel, 0)
				if ok2 {
					rc.OK(key, sel.Pos(), "%s", why)
				} else {
					rc.Bad(key, sel.Pos(), "the nesting depth of an opcode is relative to the enclosing interface/recursive frame; every other site adds ctx.BaseIndent, this one does not (%s): output is mis-indented when reached through interface{} or a recursive type", why)
				}
				return true
			})
		}
	}
	if n < 28 {
		rc.Unknown("encoder/indent-depth-sites", token.NoPos, "found %d reads of Opcode.Indent outside the compiler (confirmed: 2 in encoder.go, 9+ per indent util, 3 per interpreter)", n)
	}
}

// ---- C13.R7 sorted and unsorted map output are indented alike ----

// In the two indenting helper packages a map member is written by appendMapKeyValue (sorted maps,
// at OpMapEnd) or after appendMapKeyIndent (UnorderedMap, at OpMap/OpMapKey), and the closing brace by
// appendMapEnd or appendObjectEnd. Both members of each pair must pass the same depth to appendIndent.
func c13r7(rc *core.RC) {
	p := rc.P
	n := 0
	for _, vm := range []string{"vm_indent", "vm_color_indent"} {
		depthOf := func(name string) (core.Linear, *ast.FuncDecl) {
			fd := p.Func(vm, name)
			if fd == nil || fd.Body == nil {
				return core.Linear{}, nil
			}
			info := p.Info(fd)
			le := &core.LinearEval{Info: info}
			var out core.Linear
			ast.Inspect(fd.Body, func(m ast.Node) bool {
				if c, ok := m.(*ast.CallExpr); ok && len(c.Args) == 3 {
					// appendIndent is a package variable aliasing encoder.AppendIndent
					if id, ok := c.Fun.(*ast.Ident); ok && id.Name == "appendIndent" {
						out = le.Eval(c.Args[2])
					}
				}
				return true
			})
			return out, fd
		}
		for _, pair := range [][3]string{{"appendMapKeyValue", "appendMapKeyIndent", "member"}, {"appendMapEnd", "appendObjectEnd", "closing-brace"}} {
			a, fa := depthOf(pair[0])
			b, fb := depthOf(pair[1])
			key := vm + "." + pair[0] + "~" + pair[1] + "/" + pair[2] + "-depth"
			if fa == nil || fb == nil || !a.OK || !b.OK {
				rc.Unknown(key, token.NoPos, "helpers or their appendIndent depth not found")
				continue
			}
			n++
			rc.Touch(vm + "." + pair[0])
			rc.Touch(vm + "." + pair[1])
			rc.Check(a.Equal(b), key, fb.Pos(), "sorted path indents the %s with depth %s, UnorderedMap path with %s: UnorderedMap must change only the order of members", pair[2], a, b)
		}
	}
	if n < 4 {
		rc.Unknown("vm_indent/map-helpers", token.NoPos, "found %d helper pairs", n)
	}
}

// ---- C13.R8 each exported encoding entry point has one implementation ----

// Marshal, MarshalWithOption, MarshalNoEscape, MarshalContext, MarshalIndent and
// MarshalIndentWithOption are thin wrappers. Every return of each of them must call the same
// function, and the indenting entry points must end in marshalIndent: a shortcut to another
// implementation for some argument values (an empty prefix and indent, no options) makes the
// output depend on more than the documented settings.
func c13r8(rc *core.RC) {
	p := rc.P
	want := map[string]string{
		"Marshal":                 "json.MarshalWithOption",
		"MarshalWithOption":       "json.marshal",
		"MarshalNoEscape":         "json.marshalNoEscape",
		"MarshalContext":          "json.marshalContext",
		"MarshalIndent":           "json.MarshalIndentWithOption",
		"MarshalIndentWithOption": "json.marshalIndent",
	}
	n := 0
	for name, impl := range want {
		fd := p.Func("json", name)
		key := "json." + name + "/single-implementation"
		if fd == nil || fd.Body == nil {
			rc.Unknown(key, token.NoPos, "entry point not found")
			continue
		}
		n++
		rc.Touch("json." + name)
		info := p.Info(fd)
		callees := map[string]bool{}
		other := false
		ast.Inspect(fd.Body, func(m ast.Node) bool {
			r, ok := m.(*ast.ReturnStmt)
			if !ok {
				return true
			}
			if len(r.Results) == 1 {
				if c, ok := core.Unparen(r.Results[0]).(*ast.CallExpr); ok {
					callees[core.CalleeName(info, c)] = true
					return true
				}
			}
			other = true
			return true
		})
		var names []string
		for c := range callees {
			names = append(names, c)
		}
		sort.Strings(names)
		// the implementation may be renamed; what matters is that there is exactly one
		_ = impl
		rc.Check(len(callees) == 1 && !other, key, fd.Pos(), "every return calls the same function (%v): the entry point has no argument-dependent shortcut to another implementation", names)
	}
	if n < 6 {
		rc.Unknown("json/encoding-entry-points", token.NoPos, "found %d of the six exported Marshal entry points", n)
	}
}

// ---- C13.R9 the memory-access helpers of the four interpreter packages are the same code ----

// The four interpreter packages each carry their own copy of the helper functions. Two things tell
// the copies apart: whether output is indented and whether it is coloured. A helper whose parameters
// are all of basic types and whose body mentions neither (load, store, loadNPtr, ptrTo…: pure memory
// access) depends on neither and must be the same code in all four packages. (The formatting
// helpers are spelled differently in the packages while doing the same thing — appendMapEnd,
// appendMapKeyValue — so no syntactic comparison is made for them; C13.R3 and C13.R7 and C03.R3
// decide what can be decided there.)
func c13r9(rc *core.RC) {
	p := rc.P
	pkgs := []string{"vm", "vm_indent", "vm_color", "vm_color_indent"}
	type copyOf struct {
		fd        *ast.FuncDecl
		norm      string
		colour    bool
		indent    bool
		basicOnly bool
	}
	byName := map[string]map[string]*copyOf{}
	for _, pk := range pkgs {
		for _, fd := range p.Funcs(pk) {
			if fd.Body == nil || fd.Recv != nil || fd.Name.Name == "Run" || fd.Name.Name == "DebugRun" || fd.Name.Name == "init" {
				continue
			}
			info := p.Info(fd)
			c := &copyOf{fd: fd, basicOnly: true}
			for _, f := range fd.Type.Params.List {
				tv := info.Types[f.Type]
				if _, isBasic := tv.Type.(*types.Basic); !isBasic {
					c.basicOnly = false
				}
			}
			ast.Inspect(fd.Body, func(m ast.Node) bool {
				switch x := m.(type) {
				case *ast.SelectorExpr:
					switch x.Sel.Name {
					case "ColorScheme", "Header", "Footer":
						c.colour = true
					case "Prefix", "IndentStr", "BaseIndent", "Indent":
						c.indent = true
					}
				case *ast.Ident:
					if strings.Contains(x.Name, "Indent") || strings.Contains(x.Name, "indent") {
						c.indent = true
					}
					if strings.Contains(x.Name, "Color") || strings.Contains(x.Name, "color") {
						c.colour = true
					}
				case *ast.BasicLit:
					if x.Kind == token.STRING && (strings.Contains(x.Value, "indent") || strings.Contains(x.Value, "color")) {
						// package-qualified messages ("vm_indent: opcode …") name the package
						c.indent, c.colour = true, true
					}
				}
				return true
			})
			c.norm = core.NormalNode(p.Fset, info, fd.Body, core.NormOpts{}) + " :: " + core.NormalNode(p.Fset, info, fd.Type, core.NormOpts{})
			if byName[fd.Name.Name] == nil {
				byName[fd.Name.Name] = map[string]*copyOf{}
			}
			byName[fd.Name.Name][pk] = c
		}
	}
	var names []string
	for n := range byName {
		names = append(names, n)
	}
	sort.Strings(names)
	same := func(name, a, b, why string) {
		ca, cb := byName[name][a], byName[name][b]
		if ca == nil || cb == nil {
			return
		}
		rc.Touch(a + "." + name)
		rc.Touch(b + "." + name)
		key := fmt.Sprintf("%s.%s/same-as-%s", b, name, a)
		rc.Check(ca.norm == cb.norm, key, cb.fd.Pos(), "%s: the copy in %s must be the same code as the one in %s", why, b, a)
	}
	for _, name := range names {
		m := byName[name]
		anyOf := func(f func(*copyOf) bool) bool {
			for _, c := range m {
				if f(c) {
					return true
				}
			}
			return false
		}
		basic := !anyOf(func(c *copyOf) bool { return !c.basicOnly })
		colour := anyOf(func(c *copyOf) bool { return c.colour })
		indent := anyOf(func(c *copyOf) bool { return c.indent })
		switch {
		case basic && !colour && !indent:
			for _, pk := range pkgs[1:] {
				same(name, "vm", pk, "a memory-access helper (basic-typed parameters, no formatting state)")
			}
		}
	}
}

// ---- C13.R10 compile-time indent levels of container programs ----

// The indent an opcode carries (Opcode.Indent) is the compile context's level at the moment the opcode is made. In the
// programs of slices, arrays and maps only the element/value program sits one level below the container's brackets;
// the header, the end, the element and key bookkeeping opcodes and, for maps, the key program are made at the
// container's own level. The interpreters indent the first member of an unordered map by the first key opcode's
// level and every later member by the OpMapKey opcode's level: they must be the same level.
func c13r10(rc *core.RC) {
	p := rc.P
	n := 0
	for _, fd := range p.Funcs("encoder") {
		if fd.Body == nil || fd.Recv == nil || fd.Name.Name != "ToOpcode" {
			continue
		}
		recv := core.RecvString(fd.Recv.List[0].Type)
		if !strings.Contains(recv, "SliceCode") && !strings.Contains(recv, "ArrayCode") && !strings.Contains(recv, "MapCode") {
			continue
		}
		info := p.Info(fd)
		fn := p.FuncName(fd)
		rc.Touch(fn)
		var ctx types.Object
		for _, f := range fd.Type.Params.List {
			for _, nm := range f.Names {
				ctx = info.Defs[nm]
			}
		}
		level := 0
		undecided := false
		levels := map[string]int{}
		at := map[string]token.Pos{}
		names := map[string]string{}
		for _, st := range fd.Body.List {
			// nested control flow that moves the level is outside the modelled form
			nested := false
			ast.Inspect(st, func(m ast.Node) bool {
				switch m.(type) {
				case *ast.IfStmt, *ast.ForStmt, *ast.RangeStmt, *ast.SwitchStmt, *ast.FuncLit:
					ast.Inspect(m, func(k ast.Node) bool {
						if c, ok := k.(*ast.CallExpr); ok {
							if sel, isSel := c.Fun.(*ast.SelectorExpr); isSel && (sel.Sel.Name == "incIndent" || sel.Sel.Name == "decIndent") {
								nested = true
							}
						}
						return true
					})
				}
				return true
			})
			if nested {
				undecided = true
				break
			}
			ast.Inspect(st, func(m ast.Node) bool {
				c, ok := m.(*ast.CallExpr)
				if !ok {
					return true
				}
				sel, isSel := c.Fun.(*ast.SelectorExpr)
				if isSel && core.ObjOf(info, sel.X) == ctx && ctx != nil {
					switch sel.Sel.Name {
					case "incIndent":
						level++
					case "decIndent":
						level--
					}
					return true
				}
				takesCtx := false
				for _, a := range c.Args {
					if core.ObjOf(info, a) == ctx && ctx != nil {
						takesCtx = true
					}
				}
				if !takesCtx {
					return true
				}
				n++
				what := core.Src(p.Fset, c.Fun)
				role := ""
				switch {
				case isSel && sel.Sel.Name == "ToOpcode":
					if f := core.FieldOf(info, sel.X); f != nil {
						role = f.Name() // value, key
					}
				case strings.HasSuffix(what, "HeaderCode"):
					role = "header"
				case strings.HasSuffix(what, "ElemCode"):
					role = "elem"
				case strings.HasSuffix(what, "MapKeyCode"):
					role = "mapkey"
				case strings.HasSuffix(what, "EndCode"), what == "newOpCode":
					role = "end"
				}
				if role != "" {
					if _, dup := levels[role]; !dup {
						levels[role] = level
						at[role] = c.Pos()
						names[role] = what
					}
				}
				return true
			})
		}
		if undecided {
			rc.Unknown(fn+"/indent-levels", fd.Pos(), "incIndent/decIndent inside nested control flow: the level of each opcode could not be computed")
			continue
		}
		rc.Check(level == 0, fn+"/indent-balanced", fd.Pos(), "incIndent and decIndent are balanced (final level %+d)", level)
		pair := func(a, b string, diff int, why string) {
			la, okA := levels[a]
			lb, okB := levels[b]
			if !okA || !okB {
				return
			}
			rc.Check(la-lb == diff, fmt.Sprintf("%s/%s~%s indent-level", fn, a, b), at[a], "%s is made at compile-time indent level %+d and %s at %+d (wanted a difference of %d): %s", names[a], la, names[b], lb, diff, why)
		}
		if _, has := levels["header"]; !has {
			rc.Unknown(fn+"/header", fd.Pos(), "no header opcode constructor recognised")
			continue
		}
		pair("value", "header", 1, "the element or value program sits one level below the container's brackets")
		pair("end", "header", 0, "the closing bracket is indented like the opening one")
		pair("elem", "header", 0, "the first element is indented by the header's level, the later ones by the element opcode's")
		pair("mapkey", "key", 0, "the interpreters indent the first member of an unordered map by the first key opcode's level and every later member by OpMapKey's")
		pair("mapkey", "header", 0, "members of a map are indented relative to the map's own level")
	}
	if n < 10 {
		rc.Unknown("encoder/container-ToOpcode", token.NoPos, "found %d opcode-making calls in SliceCode/ArrayCode/MapCode.ToOpcode (confirmed: 13)", n)
	}
}

// ---- C13.R11 every option constructor changes exactly the flag it names ----

// The option constructors of package json return closures over the pooled Option. Each is folded over the two
// extreme starting values of the flag word (no bit set, every bit set): a constructor that names a behaviour must
// set exactly that behaviour's bit, a Disable… constructor must clear exactly it, and nothing else may change
// (`^=` toggles: applied to a word that has the bit it would clear it; `= X` drops the entry point's defaults).
func c13r11(rc *core.RC) {
	p := rc.P
	type want struct {
		pkg, flag string
		set       bool
	}
	table := map[string]want{
		"UnorderedMap":                {"encoder", "UnorderedMapOption", true},
		"DisableHTMLEscape":           {"encoder", "HTMLEscapeOption", false},
		"DisableNormalizeUTF8":        {"encoder", "NormalizeUTF8Option", false},
		"Debug":                       {"encoder", "DebugOption", true},
		"Colorize":                    {"encoder", "ColorizeOption", true},
		"DecodeFieldPriorityFirstWin": {"decoder", "FirstWinOption", true},
	}
	n := 0
	for name, w := range table {
		fd := p.Func("json", name)
		key := "json." + name + "/changes-exactly-its-flag"
		if fd == nil || fd.Body == nil {
			rc.Unknown(key, token.NoPos, "option constructor not found")
			continue
		}
		n++
		rc.Touch("json." + name)
		info := p.Info(fd)
		var bit int64 = -1
		if pk := p.Pkg(w.pkg); pk != nil {
			if c, ok := pk.Types.Scope().Lookup(w.flag).(*types.Const); ok {
				if v, exact := constant.Int64Val(c.Val()); exact {
					bit = v
				}
			}
		}
		if bit <= 0 || bit&(bit-1) != 0 {
			rc.Bad(key, fd.Pos(), "%s.%s is not a single bit (%d)", w.pkg, w.flag, bit)
			continue
		}
		var lit *ast.FuncLit
		ast.Inspect(fd.Body, func(m ast.Node) bool {
			if fl, ok := m.(*ast.FuncLit); ok && lit == nil {
				lit = fl
			}
			return true
		})
		if lit == nil {
			rc.Unknown(key, fd.Pos(), "the constructor does not return a closure")
			continue
		}
		// the width of the flag word
		all := int64(1)<<16 - 1
		if pk := p.Pkg(w.pkg); pk != nil {
			if c, ok := pk.Types.Scope().Lookup(w.flag).(*types.Const); ok {
				if b, isBasic := c.Type().Underlying().(*types.Basic); isBasic {
					switch b.Kind() {
					case types.Uint8:
						all = 1<<8 - 1
					case types.Uint16:
						all = 1<<16 - 1
					case types.Uint32:
						all = 1<<32 - 1
					}
				}
			}
		}
		decided := true
		run := func(start int64) int64 {
			v := start
			for _, st := range lit.Body.List {
				as, ok := st.(*ast.AssignStmt)
				if !ok || len(as.Lhs) != 1 || len(as.Rhs) != 1 {
					decided = false
					continue
				}
				sel, isSel := core.Unparen(as.Lhs[0]).(*ast.SelectorExpr)
				if !isSel || (sel.Sel.Name != "Flag" && sel.Sel.Name != "Flags") {
					continue // another field of the option (ColorScheme, DebugOut)
				}
				bp := &core.BytePred{P: p}
				// the right-hand side may mention the flag word itself (opt.Flag = opt.Flag | X): bind nothing, fold constants
				var rhs int64
				if x, isC := core.ConstInt(info, as.Rhs[0]); isC {
					rhs = x
				} else if x, ok2 := bp.EvalInt(info, as.Rhs[0], core.BindAll(nil)); ok2 {
					rhs = x
				} else {
					decided = false
					continue
				}
				rhs &= all
				switch as.Tok {
				case token.OR_ASSIGN:
					v |= rhs
				case token.AND_ASSIGN:
					v &= rhs
				case token.AND_NOT_ASSIGN:
					v &^= rhs
				case token.XOR_ASSIGN:
					v ^= rhs
				case token.ASSIGN:
					v = rhs
				default:
					decided = false
				}
			}
			return v & all
		}
		r0, r1 := run(0), run(all)
		if !decided {
			rc.Unknown(key, lit.Pos(), "the closure of %s has a statement on the flag word that could not be folded", name)
			continue
		}
		var e0, e1 int64
		if w.set {
			e0, e1 = bit, all
		} else {
			e0, e1 = 0, all&^bit
		}
		verb := map[bool]string{true: "sets", false: "clears"}[w.set]
		rc.Check(r0 == e0 && r1 == e1, key, lit.Pos(), "%s %s exactly %s.%s (%#x) and leaves every other bit of the flag word alone: from 0 it gives %#x (wanted %#x), from all bits it gives %#x (wanted %#x)", name, verb, w.pkg, w.flag, bit, r0, e0, r1, e1)
	}
	// the flag constants of each flag word are distinct single bits
	for _, fw := range [][2]string{{"encoder", "OptionFlag"}, {"decoder", "OptionFlags"}, {"encoder", "OpFlags"}} {
		pk := p.Pkg(fw[0])
		if pk == nil {
			continue
		}
		seen := map[int64]string{}
		ok := true
		var dup string
		cnt := 0
		for _, nm := range pk.Types.Scope().Names() {
			c, isConst := pk.Types.Scope().Lookup(nm).(*types.Const)
			if !isConst || !strings.HasSuffix(c.Type().String(), fw[0]+"."+fw[1]) {
				continue
			}
			v, _ := constant.Int64Val(c.Val())
			cnt++
			if v <= 0 || v&(v-1) != 0 {
				ok, dup = false, nm+" is not a single bit"
			}
			if o, had := seen[v]; had {
				ok, dup = false, nm+" and "+o+" are the same bit"
			}
			seen[v] = nm
		}
		n++
		rc.Check(ok && cnt > 0, fw[0]+"."+fw[1]+"/distinct-single-bits", token.NoPos, "the %d constants of %s.%s are distinct single bits %s", cnt, fw[0], fw[1], dup)
	}
	if n < 9 {
		rc.Unknown("json/option-constructors", token.NoPos, "found %d of 6 option constructors and 3 flag words", n)
	}
}

// ---- C13.R12 the four string writers spell every ASCII byte alike ----

// AppendString chooses one of four writers by the HTML-escape and normalisation options. The options may change only
// what they name: the spelling of <, > and & (HTML escaping) and what happens to bytes from 0x80 (normalisation).
// For every other byte below 0x80 the escape switch of the four writers has to have the same clause (statement for
// statement): a short escape (\b, \f) introduced in two of the four makes DisableHTMLEscape change the spelling of
// control characters as well.
func c13r12(rc *core.RC) {
	p := rc.P
	names := []string{"appendNormalizedHTMLString", "appendHTMLString", "appendNormalizedString", "appendString"}
	clause := map[string]map[int]string{}
	n := 0
	for _, name := range names {
		fd := p.Func("encoder", name)
		if fd == nil || fd.Body == nil {
			rc.Unknown("encoder."+name+"/escape-switch", token.NoPos, "string writer not found")
			continue
		}
		rc.Touch("encoder." + name)
		info := p.Info(fd)
		var bs *core.ByteSwitch
		ast.Inspect(fd.Body, func(m ast.Node) bool {
			sw, ok := m.(*ast.SwitchStmt)
			if !ok || bs != nil {
				return true
			}
			if b, _ := core.EvalByteSwitch(info, sw); b != nil && b.HasLabel('"') && b.HasLabel('\\') && b.HasLabel('\n') {
				bs = b
			}
			return true
		})
		if bs == nil {
			rc.Unknown("encoder."+name+"/escape-switch", fd.Pos(), "the escape switch (clauses for the quote, the backslash and the line feed) was not found")
			continue
		}
		n++
		m := map[int]string{}
		for b := 0; b < 128; b++ {
			ci := bs.Of[b]
			if ci < 0 {
				m[b] = ""
				continue
			}
			var parts []string
			for _, st := range bs.Clauses[ci].Body {
				parts = append(parts, strings.Join(strings.Fields(core.Src(p.Fset, st)), " "))
			}
			m[b] = strings.Join(parts, "; ")
		}
		clause[name] = m
	}
	if n < 4 {
		rc.Unknown("encoder/string-writers", token.NoPos, "found %d of the four string writers with an escape switch", n)
		return
	}
	ref := clause[names[0]]
	var diffs []string
	for b := 0; b < 128; b++ {
		if b == '<' || b == '>' || b == '&' {
			continue
		}
		for _, name := range names[1:] {
			if clause[name][b] != ref[b] {
				diffs = append(diffs, fmt.Sprintf("%s in %s", core.FmtBytes([]int{b}), name))
			}
		}
	}
	if len(diffs) > 8 {
		diffs = append(diffs[:8], fmt.Sprintf("… %d more", len(diffs)-8))
	}
	rc.Check(len(diffs) == 0, "encoder/string-writers/ascii-bytes-spelled-alike", token.NoPos, "for every byte below 0x80 other than <, > and & the escape switch of the four string writers has the same clause as %s (124 byte values compared)%s", names[0], func() string {
		if len(diffs) == 0 {
			return ""
		}
		return "; differs for: " + strings.Join(diffs, ", ") + " — the same string is spelled differently depending on options that do not name that byte"
	}())
}

// ---- C13.R14 a flag is cleared by masking with its complement ----

// Option and opcode flag words are bit sets. Clearing one flag is `w &= ^F` or `w &^= F`. `w &= F` (no complement)
// is the opposite operation: it keeps F and clears every other flag, among them flags an outer function set before
// (EncodeContext sets ContextOption and then calls the helper that applies the encoder's escape setting: a mask
// without complement there drops the context and with it the field query).
func c13r14(rc *core.RC) {
	p := rc.P
	n := 0
	isFlagWord := func(t types.Type) bool {
		if t == nil {
			return false
		}
		named, ok := t.(*types.Named)
		if !ok {
			return false
		}
		name := named.Obj().Name()
		return strings.HasSuffix(name, "Flag") || strings.HasSuffix(name, "Flags")
	}
	for _, pk := range p.LibPkgs() {
		info := pk.TypesInfo
		for _, f := range pk.Syntax {
			var fd *ast.FuncDecl
			ast.Inspect(f, func(m ast.Node) bool {
				if d, ok := m.(*ast.FuncDecl); ok {
					fd = d
				}
				as, ok := m.(*ast.AssignStmt)
				if !ok || (as.Tok != token.AND_ASSIGN && as.Tok != token.AND_NOT_ASSIGN) || len(as.Lhs) != 1 || len(as.Rhs) != 1 {
					return true
				}
				if !isFlagWord(info.TypeOf(as.Lhs[0])) {
					return true
				}
				n++
				fn := "?"
				if fd != nil {
					fn = p.FuncName(fd)
					rc.Touch(fn)
				}
				key := fmt.Sprintf("%s/mask %s complement-when-clearing", fn, core.Shape(p.Fset, info, fdOrNil(fd), as.Lhs[0]))
				rhs := core.Unparen(as.Rhs[0])
				_, isCompl := rhs.(*ast.UnaryExpr)
				if isCompl {
					isCompl = rhs.(*ast.UnaryExpr).Op == token.XOR
				}
				switch {
				case as.Tok == token.AND_NOT_ASSIGN && !isCompl:
					rc.OK(key, as.Pos(), "`&^=` clears the named flags")
				case as.Tok == token.AND_ASSIGN && isCompl:
					rc.OK(key, as.Pos(), "`&= ^F` clears the named flags")
				case as.Tok == token.AND_ASSIGN:
					rc.Bad(key, as.Pos(), "`%s` keeps only %s and clears every other flag of the word, including flags an outer function set before (ContextOption, FieldQueryOption, Debug, Colorize): clearing a flag is `&= ^F` or `&^= F`", core.Src(p.Fset, as), core.Src(p.Fset, rhs))
				default:
					rc.Bad(key, as.Pos(), "`%s` clears everything but the named flags (`&^=` with a complement): clearing a flag is `&= ^F` or `&^= F`", core.Src(p.Fset, as))
				}
				return true
			})
		}
	}
	if n < 4 {
		rc.Unknown("module/flag-masks", token.NoPos, "found %d masking assignments on flag words (confirmed: 4)", n)
	}
}

func fdOrNil(fd *ast.FuncDecl) *ast.FuncDecl {
	if fd == nil {
		return &ast.FuncDecl{Type: &ast.FuncType{}}
	}
	return fd
}

// ---- C13.R15 the four programs of a code set come from the right compile pass ----

// codeToOpcodeSet compiles a type twice: once with plain member names, once with HTML-escaped member names
// (compileContext.escapeKey). The code set keeps both, and a copy of each for values reached through an interface.
// Each of the four fields has to descend from the pass its name says: an InterfaceEscapeKeyCode made from the
// no-escape program writes raw <, > and & in member names of every value held by an interface.
func c13r15(rc *core.RC) {
	p := rc.P
	fd := p.Func("encoder", "Compiler.codeToOpcodeSet")
	if fd == nil || fd.Body == nil {
		rc.Unknown("encoder.codeToOpcodeSet", token.NoPos, "function not found")
		return
	}
	info := p.Info(fd)
	fn := p.FuncName(fd)
	rc.Touch(fn)
	// all definitions of each local
	defs := map[types.Object][]ast.Expr{}
	ast.Inspect(fd.Body, func(m ast.Node) bool {
		as, ok := m.(*ast.AssignStmt)
		if !ok || len(as.Lhs) != len(as.Rhs) {
			return true
		}
		for i, l := range as.Lhs {
			if o := core.ObjOf(info, l); o != nil {
				defs[o] = append(defs[o], as.Rhs[i])
			}
		}
		return true
	})
	// lineage: "escape", "noescape", or "" (unknown) / "mixed"
	var lineage func(e ast.Expr, seen map[types.Object]bool) string
	lineage = func(e ast.Expr, seen map[types.Object]bool) string {
		e = core.Unparen(e)
		switch v := e.(type) {
		case *ast.Ident:
			o := core.ObjOf(info, v)
			if o == nil || seen[o] {
				return ""
			}
			seen[o] = true
			res := ""
			for _, d := range defs[o] {
				l := lineage(d, seen)
				if l == "" {
					continue
				}
				if res != "" && res != l {
					return "mixed"
				}
				res = l
			}
			return res
		case *ast.CallExpr:
			name := core.CalleeName(info, v)
			if strings.HasSuffix(name, "Compiler.codeToOpcode") && len(v.Args) >= 1 {
				esc := "noescape"
				ast.Inspect(v.Args[0], func(k ast.Node) bool {
					if kv, ok := k.(*ast.KeyValueExpr); ok {
						if id, isID := kv.Key.(*ast.Ident); isID && id.Name == "escapeKey" {
							if c := core.ConstValue(info, kv.Value); c != nil && c.String() == "true" {
								esc = "escape"
							}
						}
					}
					return true
				})
				return esc
			}
			// copies keep the lineage of their operand
			if len(v.Args) >= 1 && strings.HasPrefix(name, "encoder.") {
				return lineage(v.Args[0], seen)
			}
		}
		return ""
	}
	want := map[string]string{"NoescapeKeyCode": "noescape", "EscapeKeyCode": "escape", "InterfaceNoescapeKeyCode": "noescape", "InterfaceEscapeKeyCode": "escape"}
	n := 0
	ast.Inspect(fd.Body, func(m ast.Node) bool {
		kv, ok := m.(*ast.KeyValueExpr)
		if !ok {
			return true
		}
		id, ok := kv.Key.(*ast.Ident)
		if !ok || want[id.Name] == "" {
			return true
		}
		n++
		got := lineage(kv.Value, map[types.Object]bool{})
		key := fn + "/" + id.Name + " from-its-own-compile-pass"
		switch {
		case got == "":
			rc.Unknown(key, kv.Pos(), "the value %s could not be traced to a call of codeToOpcode", core.Src(p.Fset, kv.Value))
		default:
			rc.Check(got == want[id.Name], key, kv.Pos(), "%s descends from the compile pass with escapeKey=%v (found: the %s pass): the other pass renders the member names the other way, so values reached through an interface would get raw or escaped names at the wrong time", id.Name, want[id.Name] == "escape", got)
		}
		return true
	})
	if n < 4 {
		rc.Unknown(fn+"/programs", fd.Pos(), "found %d of the four program fields in the OpcodeSet literal", n)
	}
}

// ---- C13.R16 the memo of linked recursive bodies belongs to one compile pass ----

// A type is compiled twice, with plain and with HTML-escaped member names, and the member names are rendered into
// the opcodes at compile time. linkRecursiveCode gives every recursive reference a jump into a linked copy of the
// struct's body and remembers the copies per type in a map. That map has to be created by the call (one per pass):
// kept on the Compiler ("link each type once") the second pass finds the bodies of the first, and the recursive
// levels of the escaping program run the non-escaping body: raw <, > and & in member names below the root.
func c13r16(rc *core.RC) {
	p := rc.P
	fd := p.Func("encoder", "Compiler.linkRecursiveCode")
	if fd == nil || fd.Body == nil {
		rc.Unknown("encoder.linkRecursiveCode", token.NoPos, "function not found")
		return
	}
	info := p.Info(fd)
	fn := p.FuncName(fd)
	rc.Touch(fn)
	n := 0
	seen := map[types.Object]bool{}
	ast.Inspect(fd.Body, func(m ast.Node) bool {
		ix, ok := m.(*ast.IndexExpr)
		if !ok {
			return true
		}
		t := info.TypeOf(ix.X)
		if t == nil {
			return true
		}
		mt, isMap := t.Underlying().(*types.Map)
		if !isMap || !strings.HasSuffix(mt.Elem().String(), "CompiledCode") {
			return true
		}
		key := fn + "/memo-of-linked-bodies created-by-the-call"
		base := core.Unparen(ix.X)
		id, isID := base.(*ast.Ident)
		if !isID {
			n++
			rc.Bad(key, ix.Pos(), "the memo of linked recursive bodies is %s, which outlives the call: the two compile passes of a type (plain and escaped member names) would share one body per recursive type", core.Src(p.Fset, base))
			return true
		}
		o := core.ObjOf(info, id)
		if seen[o] {
			return true
		}
		seen[o] = true
		n++
		def := singleDef(info, fd.Body, o)
		fresh := false
		switch d := core.Unparen(def).(type) {
		case *ast.CompositeLit:
			fresh = true
		case *ast.CallExpr:
			fresh = core.IsBuiltin(info, d, "make")
		}
		rc.Check(fresh, key, id.Pos(), "the memo of linked recursive bodies (%s) is a map made in this call (found: %s): taken from the compiler or a parameter it is shared by the two compile passes of a type, and the second pass jumps into bodies rendered by the first", id.Name, core.Src(p.Fset, def))
		return true
	})
	if n < 1 {
		rc.Unknown(fn+"/memo", fd.Pos(), "no map of linked bodies (element type CompiledCode) found")
	}
}

// ---- C13.R17 the text of a recorded map key is found without guessing where the colour ends ----

// At OpMapEnd the members of a map are ordered by the key strings they spell. What is recorded for a key is what was
// written for it: under Colorize that is the colour format's header, the quoted text (or, for integer keys, a quote,
// the header, the digits, the footer and a quote) and the footer. mapKeyText finds the text by searching the recorded
// bytes for the first quote. A colour format is caller data; a header that holds a quote (`<span class="s">`) makes
// every key of the map spell the same text (class=), the comparison says "equal" for all pairs and the members come
// out in the iteration order of the map: another order on every call, and another document than without colour.
// Obligation: the function that delimits the text is told where the colour header ends (a parameter for the format
// or its length); a search for the first quote over the whole recorded key is reported.
func c13r17(rc *core.RC) {
	p := rc.P
	fd := p.Func("encoder", "mapKeyText")
	if fd == nil || fd.Body == nil {
		rc.Unknown("encoder.mapKeyText", token.NoPos, "function not found")
		return
	}
	info := p.Info(fd)
	rc.Touch("encoder.mapKeyText")
	nparams := 0
	var rec types.Object
	for _, f := range fd.Type.Params.List {
		for _, nm := range f.Names {
			nparams++
			if o := info.Defs[nm]; o != nil && o.Type().String() == "[]byte" && rec == nil {
				rec = o
			}
		}
	}
	search := false
	ast.Inspect(fd.Body, func(m ast.Node) bool {
		c, ok := m.(*ast.CallExpr)
		if !ok || core.CalleeName(info, c) != "bytes.IndexByte" || len(c.Args) != 2 {
			return true
		}
		if core.ObjOf(info, c.Args[0]) != rec {
			return true
		}
		if v, isC := core.ConstInt(info, c.Args[1]); isC && v == '"' {
			search = true
		}
		return true
	})
	rc.Check(!(search && nparams == 1), "encoder.mapKeyText/opening-quote-not-guessed", fd.Pos(), "the text of a recorded key is taken to begin behind the first quote of the recorded bytes, which begin with the colour format's header under Colorize: a format whose header holds a quote makes all keys of a map compare equal, and the members are written in iteration order")
}

// ---- C13.R18 the interpreters write the encoded member name, never the display name ----

// An operation carries the member name twice: Key is the name as it is written (quoted, escaped for the HTML option of
// the program, with its colon), DisplayKey is the raw tag name for Dump. The two spell the same bytes for every name
// without <, > or &, so a writer that takes DisplayKey passes every test with ordinary names and differs from the
// other interpreters for `json:"a<b"`. Obligation: no function of the four interpreter packages that returns []byte
// reads Opcode.DisplayKey; in package encoder it is read (copied and dumped), which keeps the rule from passing
// because the field went away.
func c13r18(rc *core.RC) {
	p := rc.P
	readsIn := func(short string, onlyWriters bool) (int, []ast.Node, []string) {
		n := 0
		var at []ast.Node
		var where []string
		for _, fd := range p.Funcs(short) {
			if fd.Body == nil {
				continue
			}
			info := p.Info(fd)
			if onlyWriters {
				w := false
				if fd.Type.Results != nil {
					for _, r := range fd.Type.Results.List {
						if t := info.TypeOf(r.Type); t != nil && t.String() == "[]byte" {
							w = true
						}
					}
				}
				if !w {
					continue
				}
			}
			assigned := map[ast.Node]bool{}
			ast.Inspect(fd.Body, func(m ast.Node) bool {
				if as, ok := m.(*ast.AssignStmt); ok {
					for _, l := range as.Lhs {
						assigned[core.Unparen(l)] = true
					}
				}
				if kv, ok := m.(*ast.KeyValueExpr); ok {
					assigned[kv.Key] = true
				}
				return true
			})
			ast.Inspect(fd.Body, func(m ast.Node) bool {
				sel, ok := m.(*ast.SelectorExpr)
				if !ok || assigned[sel] {
					return true
				}
				if f := core.FieldOf(info, sel); f != nil && f.Name() == "DisplayKey" && strings.HasSuffix(f.Pkg().Path(), "internal/encoder") {
					n++
					at = append(at, sel)
					where = append(where, p.FuncName(fd))
				}
				return true
			})
		}
		return n, at, where
	}
	ref, _, _ := readsIn("encoder", false)
	if ref < 2 {
		rc.Unknown("encoder/Opcode.DisplayKey-reads", token.NoPos, "found %d reads of Opcode.DisplayKey in package encoder, fewer than the 2 confirmed by hand (copyOpcode, dumpKey)", ref)
		return
	}
	for _, vm := range core.VMPkgs {
		key := vm + "/writers-take-Key-not-DisplayKey"
		n, at, where := readsIn(vm, true)
		rc.Touch(vm + ".Run")
		if n == 0 {
			rc.OK(key, token.NoPos, "no function of %s that returns []byte reads Opcode.DisplayKey (%d reads in package encoder: copy and dump)", vm, ref)
		} else {
			rc.Bad(key, at[0].Pos(), "%s writes the display name of a member (Opcode.DisplayKey, the raw tag name) where the other interpreters write Opcode.Key, the name escaped for the program's HTML option: for a name with <, > or & this interpreter's output differs from theirs", where[0])
		}
	}
}

// ---- C13.R19 every line an indenting interpreter begins starts with the prefix ----

// json.Indent puts the prefix at the beginning of every line after the first, whatever the indent string is.
// AppendIndent and AppendStructEndIndent are the two functions of the encoder that begin a line: each appends
// ctx.Prefix and then the indent string once per level. Obligation: in every function of package encoder that appends
// ctx.Prefix to its output, that append stands in front of every return of the function (no exit leaves it out,
// e.g. for an empty indent string).
func c13r19(rc *core.RC) {
	p := rc.P
	n := 0
	for _, fd := range p.Funcs("encoder") {
		if fd.Body == nil {
			continue
		}
		info := p.Info(fd)
		var prefixAppend *ast.AssignStmt
		ast.Inspect(fd.Body, func(m ast.Node) bool {
			as, ok := m.(*ast.AssignStmt)
			if !ok || len(as.Rhs) != 1 || prefixAppend != nil {
				return true
			}
			c, isCall := core.Unparen(as.Rhs[0]).(*ast.CallExpr)
			if !isCall || !core.IsBuiltin(info, c, "append") || len(c.Args) != 2 || !c.Ellipsis.IsValid() {
				return true
			}
			if f := core.FieldOf(info, core.Unparen(c.Args[1])); f != nil && f.Name() == "Prefix" {
				prefixAppend = as
			}
			return true
		})
		if prefixAppend == nil {
			continue
		}
		n++
		rc.Touch(p.FuncName(fd))
		key := p.FuncName(fd) + "/prefix-on-every-way-out"
		cf := core.BuildCFGFor(fd, info)
		var bad *ast.ReturnStmt
		for _, r := range cf.Returns() {
			if !cf.NodeBefore(prefixAppend, r) {
				bad = r
			}
		}
		if bad == nil {
			rc.OK(key, prefixAppend.Pos(), "ctx.Prefix is appended in front of every return")
		} else {
			rc.Bad(key, bad.Pos(), "%s returns at %s without having written ctx.Prefix: the line it begins lacks the prefix that json.Indent puts there (MarshalIndent(v, \">\", \"\") differs from Indent(Marshal(v), \">\", \"\"))", p.FuncName(fd), p.Pos(bad.Pos()))
		}
	}
	if n < 2 {
		rc.Unknown("encoder/prefix-writers", token.NoPos, "found %d functions that append ctx.Prefix, fewer than the 2 confirmed by hand (AppendIndent, AppendStructEndIndent)", n)
	}
}
